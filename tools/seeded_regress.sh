#!/bin/bash
# Run every seeded change against the check of its own property (quick tier) and record the exit codes.
# usage: tools/seeded_regress.sh [dir ...]    -> /verif/.build/regress.tsv    (modifies /repo's working tree while it runs; restores it)
cd /verif
out=.build/regress.tsv; : > $out
list="$@"; [ -z "$list" ] && list=$(ls -d seeded/*/)
for d in $list; do
  d=${d%/}; id=$(basename $d)
  prop=$(python3 -c "import json;print(json.load(open('$d/meta.json'))['property'])")
  if ! git -C /repo apply --check /verif/$d/patch.diff 2>/dev/null; then echo -e "$id\t$prop\tNOAPPLY" | tee -a $out; continue; fi
  git -C /repo apply /verif/$d/patch.diff
  timeout 1500 ./check $prop --tier ${TIER:-quick} > .build/regress.$id.log 2>&1; rc=$?
  git -C /repo checkout -- .
  first=$(grep -m1 -A1 "^VIOLATION" .build/regress.$id.log | tail -1 | cut -c1-160)
  echo -e "$id\t$prop\trc=$rc\t$first" | tee -a $out
done
git -C /repo status --short

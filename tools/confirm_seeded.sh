#!/bin/bash
# Confirm every seeded change myself in a scratch worktree: demo passes on HEAD, fails with the patch, full suite passes with the patch.
# usage: tools/confirm_seeded.sh [ID/AB ...]   results -> /verif/.build/confirm/<ID>_<AB>.json
set -u
W=/tmp/wt/confirm
OUT=/verif/.build/confirm
mkdir -p $OUT /tmp/wt
if [ ! -d $W ]; then
  git -C /repo worktree add -q --detach $W HEAD || exit 9
  mkdir -p $W/target && cp -a /repo/target/debug $W/target/debug && rm -rf $W/target/debug/incremental
fi
git -C $W checkout -q --detach $(git -C /repo rev-parse HEAD)
list="$@"
[ -z "$list" ] && list=$(cd /verif/.build/incoming && ls -d */[AB])
for m in $list; do
  id=${m%/*}; ab=${m#*/}; d=/verif/.build/incoming/$m
  patch=$d/patch.diff; [ -f $d/patch.rebased.diff ] && patch=$d/patch.rebased.diff
  name=$(grep -oE 'dropshot/tests/[A-Za-z0-9_]+\.rs' $d/demo_howto.md | head -1 | sed 's|dropshot/tests/||; s|\.rs||')
  [ -z "$name" ] && name="seed_$(echo $id | tr A-Z a-z)_$(echo $ab | tr A-Z a-z)"
  cd $W && git checkout -q -- . && git clean -fdq -e target
  res="{\"id\":\"$id\",\"variant\":\"$ab\",\"demo_test\":\"$name\",\"patch\":\"$(basename $patch)\""
  if ! git apply --check $patch 2>/dev/null; then echo "$res,\"applies\":false}" > $OUT/${id}_$ab.json; echo "$m: patch does not apply"; continue; fi
  cp $d/demo.rs dropshot/tests/$name.rs
  cargo nextest run --offline -p dropshot --test $name > $OUT/${id}_$ab.demo_clean.log 2>&1; rc_clean=$?
  git apply $patch
  cargo nextest run --offline -p dropshot --test $name > $OUT/${id}_$ab.demo_patched.log 2>&1; rc_patched=$?
  rm dropshot/tests/$name.rs
  suite_ok=false; tries=0
  while [ $tries -lt 3 ]; do
    tries=$((tries+1))
    cargo nextest run --workspace --no-fail-fast --offline > $OUT/${id}_$ab.suite.log 2>&1
    if grep -q "222 tests run: 222 passed" $OUT/${id}_$ab.suite.log; then suite_ok=true; break; fi
  done
  summary=$(grep -E "tests run:" $OUT/${id}_$ab.suite.log | tail -1 | sed 's/"/ /g')
  echo "$res,\"applies\":true,\"demo_on_head_rc\":$rc_clean,\"demo_with_patch_rc\":$rc_patched,\"suite_with_patch_ok\":$suite_ok,\"suite_tries\":$tries,\"suite_summary\":\"$summary\"}" > $OUT/${id}_$ab.json
  echo "$m: demo clean rc=$rc_clean patched rc=$rc_patched suite_ok=$suite_ok (tries $tries)"
  git checkout -q -- . && git clean -fdq -e target
done

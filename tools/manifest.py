#!/usr/bin/env python3
"""Regenerates /verif/MANIFEST.json from the table below (single source of truth)."""
import json, os
HERE = os.path.dirname(os.path.dirname(os.path.abspath(__file__)))
MIRSYM = "symbolic execution of rustc MIR (regenerated from /repo on every run) + SMT (z3; cvc5/z3-4.8 cross-check in thorough tier); solver models replayed natively"
CHECKS = {
 "C05": dict(
  text="Symbolic execution of ApiEndpointVersions::{matches,overlaps_with,from_until} and ClientSpecifiesVersionInHeader::request_extract_version/parse_header from their MIR; every path's result is compared by z3 with the interval semantics of the statement over all versions (structured semver order: major/minor/patch integers, pre-release and build as dense orders), all 4 range kinds and all 16 ordered pairs; overlap is compared with a quantified 'exists a shared version' and proved symmetric. No bound on versions. Counterexamples and witnesses are replayed natively through the public API.",
  note="Trusted: semver's Ord is the lexicographic precedence order modelled in props/vermodel.py; str::parse::<Version> and HeaderMap/HeaderValue accessors (props/httpmodel.py). Outside: the empty range `until 0.0.0-0`; the proc-macro range syntax (dropshot_endpoint).",
  tech="symbolic execution of MIR + SMT (quantified LIA/LRA for overlap), native replay", ref="DESIGN.md §5 C05"),
 "C01": dict(
  text="HttpRouter::{new,insert,lookup_route} (with PathSegment::from, route_path_to_segments, insert_var, find_handler_matching_version, ApiEndpointVersions::{matches,overlaps_with}) executed from MIR on a family of ~240 (quick) route-table shapes (2-3 endpoints, templates of literals/variables/trailing wildcard up to depth 3, all registration orders) with symbolic version bounds and a symbolic request (0..3 opaque segments of any content, symbolic method incl. lower-case and unknown, symbolic version). Every execution path is compared by z3 with an independent reference matcher: dispatched endpoint matches, no other endpoint matches, errors only when nothing matches, every variable equals its segment, wildcard = remaining segments (possibly empty), body-limit/content-type/handler metadata of the chosen endpoint, has_versioned_routes order-independent, no panic in lookup.",
  note="Bounded: table shapes are an enumerated family (bounds in evidence); inside a shape versions, segments, method are unbounded symbols. Assume/guarantee: input_path_to_segments is replaced by its contract (C03). Trusted library models: BTreeMap/Vec/Option/str/iterators (mirsym/models.py). server.rs glue between version policy and lookup is not encoded.",
  tech="symbolic execution of MIR + SMT against a reference matcher; function summaries for version predicates; native replay", ref="DESIGN.md §5 C01"),
 "C02": dict(
  text="Same executor and table family as C01, registration side: for every table shape and every registration order, insert() rejects (panics) exactly when the statement's conflict predicate holds (different kinds of segment or different variable names at one position, repeated variable, segment after wildcard, same method + a shared request path + version ranges sharing a version — decided by z3 with a quantified shared-version formula); for every accepted table no request (0..3 segments) matches two endpoints, and every endpoint answers a request constructed for it for ALL version assignments under which the table is accepted.",
  note="As C01. Not encoded: validate_path_parameters / validate_named_parameters / validate_tags (parameter-vs-path-variable, scalar-type and tag-policy clauses), which need schemars output for compiled types.",
  tech="symbolic execution of MIR + SMT (declarative conflict predicate, forall-versions reachability), native replay", ref="DESIGN.md §5 C02"),
 "C04": dict(
  text="Same executor and table family as C01, error side of lookup_route: for every unmatched request the status is 405 iff the request's path is served at the request's version for some other method, else 404; a 405's Allow header lists exactly (no duplicates, nothing else) the methods served at that path and version, including methods contributed by a wildcard child matching the empty remainder and methods with several version ranges; 404 carries no Allow. Witness for each (status, Allow) class replayed natively.",
  note="As C01. HttpError::{for_client_error_with_status,for_not_found,add_header,headers_mut} run from MIR; HeaderMap/HeaderName/HeaderValue are models.",
  tech="symbolic execution of MIR + SMT against a reference matcher; native replay", ref="DESIGN.md §5 C04"),
 "C03": dict(
  text="router::input_path_to_segments and its closures executed from MIR on a raw request path of N symbolic bytes (every length 0..8 quick / 0..10 thorough, every byte 0x01..0xFF) and compared path by path with a reference normaliser (split on '/', drop empty pieces, percent-decode each piece exactly once, refuse '.'/'..' after decoding and invalid UTF-8) whose branches are decided by the solver under the path condition; then lookup_route with the real normaliser on wildcard and variable routes followed by the MapValue accessors the Path extractor uses (as_value/as_seq): handlers receive exactly the reference's segments, never '', '.' or '..', and a segment error is a 400. Counterexamples replayed through lookup_route and a loop-back server.",
  note="Bounded by raw path length (stated in evidence). Trusted: models of str::split/filter/map/collect and of percent_encoding::percent_decode_str(..).decode_utf8() (props/strmodel.py), validated against the real crate on a fixed corpus and on every replayed model. Outside: what hyper/http::Uri accept as a request target. The equal-treatment-of-extra-slashes clause follows from equality with the reference (which ignores empty pieces) rather than from a separate relational query.",
  tech="symbolic execution of MIR over bounded symbolic byte strings + SMT; reference executed under the path condition; native replay", ref="DESIGN.md §5 C03"),
 "C11": dict(
  text="RequestContext::request_body_max_bytes, StreamingBody::into_stream (the try_stream! coroutine, executed as a state machine across polls), http_dump_body's coroutine, StreamingBody::into_bytes_mut and UntypedBody::from_request executed from MIR on frame scripts of 0..4 (quick) / 0..6 (thorough) frames, each a data frame of symbolic 64-bit length, a trailers frame or a transport error, with symbolic server default and per-endpoint override. z3 proves per path: effective limit = override else default; the emitted sequence is exactly the data frames in order until the running total would exceed the limit, then (after draining the rest) one 4xx error and nothing more; delivered bytes <= limit; a body within the limit is delivered intact; the buffered extractor succeeds iff the stream has no error. Wire-level witnesses (untyped, streaming, typed extractors; default/override; several chunkings) replayed against a loop-back server.",
  note="Assumes the frame lengths of one body sum to < 2^63. Trusted: models of the http_body_util Frame future, async-stream yielder and futures try_fold (props/asyncmodel.py). Outside: HTTP framing / chunk decoding (hyper); byte contents (chunks tracked by identity); TypedBody's use of the same path is exercised on the wire only.",
  tech="symbolic execution of MIR coroutines across polls + SMT (64-bit bit-vectors); reference stream evaluated under path conditions; native replay", ref="DESIGN.md §5 C11"),
 "C13": dict(
  text="HttpError's six public constructors, add_header/with_header (0..2 attached headers) and into_response executed from MIR with the status as a symbolic 16-bit value over the whole admissible range, and messages / error code / request id / header values as distinct opaque strings: z3 proves per path that no constructor panics, the response status equals the error's status, the JSON body carries request id, external message (the canonical reason where the constructor says so, from the http crate's table) and error code (omitted iff None), the headers are exactly the attached ones plus content-type: application/json and x-request-id = the request id, and (non-interference) the internal-message symbol occurs nowhere in the response. HandlerError::{status_code,into_response} stamp a handler-built response with exactly one x-request-id. ErrorStatusCode / ClientErrorStatusCode from_u16, from_status, as_client_error are decided over all u16 twice: by MIRSYM (models of http::StatusCode) and by Kani/CBMC on the compiled code of dropshot and the real http crate.",
  note="Trusted: http::StatusCode range predicates and canonical_reason table (read from the registry source), HeaderMap/Builder models, serde_json rendering kept uninterpreted. Assumes the request id is a legal header value (server-generated UUID). Outside: request-id uniqueness and the stamping in server.rs::http_request_handle over request sequences.",
  tech="symbolic execution of MIR + SMT (bit-vector status, opaque strings, term-occurrence non-interference); Kani/CBMC for the status refinement types; native replay", ref="DESIGN.md §5 C13"),
 "C14": dict(
  text="pagination::{serialize_page_token, deserialize_page_token, deserialize_whichpage}, ResultsPage::new and RequestContext::page_limit executed from MIR. The selector is an opaque value with a symbolic 64-bit JSON length; an incoming token has symbolic length, decodability and parse outcome. z3 proves per path: an issued token carries the version tag and the selector, is never longer than MAX_TOKEN_LENGTH, and is accepted back as the same selector (this is where an asymmetric size bound or a different base64 engine on one side shows up); issuing fails only with a 5xx when the token would not fit; an incoming token is accepted iff length <= bound, base64 decodes and JSON parses (never a panic); with page_token present the result is Next(its selector) and no other parameter reaches the result, without it First(all parameters); ResultsPage::new returns a token iff the page is non-empty, derived from the last item; page_limit = min(client limit, server max) or the default, never 0, over all 32-bit values. Wire-level witnesses (token sizes around the bound, malformed tokens, limits incl. 0/negative/non-numeric) on a loop-back server.",
  note="Trusted: serde_json round trip parse(json(v)) = Ok(v); base64 decode_E(encode_E(x)) = Ok(x) and the padded length formula (engines are distinguished by the constant read from the MIR); serde's BTreeMap deserialisation and from_map are nondeterministic contracts here. Rejection of limit=0 / negative / non-numeric is third-party (serde_urlencoded + NonZeroU32) and only exercised on the wire.",
  tech="symbolic execution of MIR + SMT (bit-vectors, uninterpreted codecs with round-trip axioms); native replay incl. loop-back server", ref="DESIGN.md §5 C14"),
 "C15": dict(
  text="(i) Framework facts from MIR, as in C14: an issued token is accepted back as the same selector; ResultsPage::new (pages of 0..3 items quick / 0..5 thorough, selector JSON length symbolic) returns a token iff the page is non-empty, derived from the last item, and otherwise fails loudly with a 5xx (never a silent page without token); page_limit = min(limit, max) / default, >= 1, over all 32-bit values. (ii) One inductive step from an arbitrary scan state (any collection size, position and limits as unbounded integers) discharged by z3 over the documented keyset consumer pattern: page length <= effective limit <= server max, the delivered prefix is extended contiguously (no skip, no repeat), strict progress while items remain, token iff page non-empty, termination exactly when everything was delivered. (iii) complete scans (sizes 0..12000, limits 1..beyond the maximum and absent, both orders) on a loop-back server.",
  level="model_checking",
  note="The scan history is covered by induction, not unrolled; the consumer's query is a trusted model (the keyset pattern of the examples); collection unchanged during the scan. Framework facts rest on the same serde/base64 axioms as C14.",
  tech="symbolic execution of MIR for the framework contracts + SMT inductive step over a consumer model; native replay of complete scans", ref="DESIGN.md §5 C15"),
}
NA_DEFAULT = "check under construction in this round (see DESIGN.md §5/§7); not yet claimed"
NA = {}

def main():
    props = [json.loads(l) for l in open(os.path.join(HERE, 'properties.jsonl'))]
    man = {
     "version": 1,
     "setup_cmd": "./setup.sh",
     "hooks": {"guard": "none-required", "enable": "no source hooks: MIRSYM reads private items from the MIR dump of the unmodified crate; the replay binary uses the public API",
               "baseline_off_cmd": "cd /repo && cargo nextest run --workspace --no-fail-fast --offline", "source_commits": [], "add_only": True},
     "engines": [
      {"name": "MIRSYM", "path": "mirsym/", "serves_properties": sorted(CHECKS), "kind_free_text": MIRSYM},
      {"name": "replay", "path": "replay/", "serves_properties": sorted(CHECKS), "kind_free_text": "native replay of solver models against the real compiled crate (public API only); guards against false alarms and vacuity"}],
     "checks": [], "not_applicable": [],
     "notes": "See DESIGN.md. Exit 0 held / 1 VIOLATION (replayed natively) / 2 INCONCLUSIVE (never success). known_findings.json lists fixed defects (fix: commits in /repo)."}
    for p in props:
        pid = p['id']
        if pid in CHECKS:
            c = CHECKS[pid]
            man['checks'].append({
             "property_id": pid, "quick_cmd": f"./check {pid} --tier quick", "thorough_cmd": f"./check {pid} --tier thorough",
             "evidence_file": f"evidence/{pid}.json", "replay_cmd_template": f"./check {pid} --replay {{path}}", "engine": c.get('engine', 'MIRSYM'),
             "level_claimed": {"category": c.get('level', 'model_checking'), "text": c['text'], "design_ref": c['ref']},
             "level_note": c['note'], "technique": c['tech']})
        else:
            man['not_applicable'].append({"property_id": pid, "reason": NA.get(pid, NA_DEFAULT)})
    json.dump(man, open(os.path.join(HERE, 'MANIFEST.json'), 'w'), indent=1)
    print('checks:', [c['property_id'] for c in man['checks']])

if __name__ == '__main__':
    main()

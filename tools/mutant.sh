#!/bin/bash
# tools/mutant.sh <patch|rev:COMMIT> <check ids...>   apply a change to /repo, run checks, undo
P="$1"; shift
cd /repo && git status --short | grep -v '^??' | grep . && { echo "repo not clean"; exit 9; }
if [[ "$P" == rev:* ]]; then git show "${P#rev:}" | git apply -R || exit 9; else git apply "$P" || exit 9; fi
cd /verif
for id in "$@"; do
  out=$(./check "$id" --tier ${TIER:-quick} 2>&1); rc=$?
  echo "== $P $id rc=$rc"; echo "$out" | grep -E "VIOLATION|INCONCLUSIVE|KNOWN|^\[" | head -${LINES_MAX:-4}
  echo "$out" | grep -A1 "^VIOLATION" | grep -v "^VIOLATION" | grep -v "^--" | head -2
done
git -C /repo checkout -- . 

#!/usr/bin/env python3
"""Import confirmed second-wave seeded changes from .build/incoming/<ID>r2/{A,B} into seeded/<ID>-{C,D}."""
import json, os, re, shutil, subprocess
V = '/verif'
NEEDS = {
 'C01r2/A': 'a `from A` range next to a `from A until B` range on the same method and path whose ranges only touch; a request at a version in the gap',
 'C01r2/B': 'a versioned server and a request whose api-version header names a pre-release (1.0.0-rc.1) next to a range bound at the release',
 'C02r2/A': 'a path template repeating a variable name ({x}/{x}) registered after another endpoint already created the {x} edge',
 'C02r2/B': 'two bounded ranges [a,b) and [b,c) ... that touch or nest at an end point on the same method and path',
 'C03r2/A': 'a path segment that percent-decodes to bytes that are not UTF-8 (%FF, %C3 at the end, overlong %C0%AE)',
 'C03r2/B': 'a trailing wildcard route and an encoded slash (%2F) inside the wildcard part, optionally around `..`',
 'C04r2/A': 'the same method registered on an exact path and on the wildcard below it for disjoint version ranges; request with another method at a version only one of them serves',
 'C04r2/B': 'an error carrying the same header name twice (two Allow values attached with add_header)',
 'C05r2/A': 'a server with the header version policy whose API has no version-restricted endpoint; request without (or with an unusable) version header',
 'C05r2/B': 'three registrations for one method and path where only the middle one overlaps the new range',
 'C06r2/A': 'two endpoints sharing a variable position with names that differ only in case ({Id} / {id}); registration order decides the published template',
 'C06r2/B': 'a document generated for a pre-release version (2.0.0-rc.1) when a range is bounded at exactly 2.0.0',
 'C08r2/A': 'a parameter/header schema that is an allOf with two or more members (only the first survives)',
 'C08r2/B': 'an upper limit of exactly zero (maxLength / maxItems / maxProperties = 0)',
 'C09r2/A': 'a u64 path (or scan) parameter above i64::MAX',
 'C09r2/B': 'a query value containing an encoded %, & or + (%25, %26, %2B): decoded twice',
 'C10r2/A': 'a Content-Type header with octets that are not visible ASCII on an endpoint expecting JSON',
 'C10r2/B': 'a query value such as n=%2531 (the text %31) or s=x%26n%3D1: decoded before the form decoder splits',
 'C11r2/A': 'a chunked (no content-length) body larger than the limit sent to a buffering extractor (UntypedBody / TypedBody)',
 'C11r2/B': 'one method and path registered for disjoint version ranges with different request_body_max_bytes; request at the later version',
 'C12r2/A': 'a redirect location containing a horizontal tab (legal in a header value)',
 'C12r2/B': 'a declared response header whose value is the empty string',
 'C13r2/A': 'two or more requests on one keep-alive connection (the id is drawn once per connection)',
 'C13r2/B': 'the same header name attached twice to an error with with_header (or add_header then with_header)',
 'C14r2/A': 'the exact query `page_token=` (empty value) next to other scan parameters',
 'C14r2/B': 'a limit with bit 31 set (2147483648 ..= 4294967295)',
 'C15r2/A': 'a page whose last item makes the token contain the sextet 62 (`~`, `>` at offset 2 mod 3), token pasted into the query as issued',
 'C15r2/B': 'a page selector with a 128-bit integer above u64::MAX',
 'C20r2/A': 'a Connection/Upgrade list whose matching token is followed by whitespace before the comma (`Upgrade , keep-alive`)',
 'C20r2/B': 'a Sec-WebSocket-Key with octets that are not well-formed UTF-8',
}
NEEDS3 = {
 'C01r3/A': 'a request segment containing an encoded percent sign followed by two hex digits (`%2541`): decoded twice before matching',
 'C01r3/B': 'an endpoint registered (ApiEndpoint::new) with an extension method that is not upper case (`purge`)',
 'C02r3/A': 'tag policy ExactlyOne and an endpoint without any tag',
 'C02r3/B': 'a trailing wildcard variable and a query parameter of the same name',
 'C03r3/A': 'dots or nothing surrounded by percent-encoded whitespace (`..%20`, `%20`): trimmed after the router screened the segment',
 'C03r3/B': 'a request for exactly the base path of a wildcard route, with and without a trailing slash',
 'C04r3/A': 'a version header carrying a pre-release of the version at which a path changes its method set',
 'C04r3/B': 'a request path containing `%25XX` (`/%2566oo`)',
 'C05r3/A': 'a request version with a pre-release tag against any bounded range (Cargo requirement semantics instead of semver precedence)',
 'C05r3/B': 'a version header with an octet outside visible ASCII: answered 500',
 'C06r3/A': '`from A` next to `from B until C` with A < B on one method and path',
 'C06r3/B': 'an API with a HEAD or OPTIONS endpoint',
 'C08r3/A': 'a named type with an `example` used both as a query/path/header member and in a body',
 'C08r3/B': 'a response header whose type is a newtype around another named type',
 'C09r3/A': 'a TLS server and two connections whose handshakes complete in another order than they were accepted',
 'C09r3/B': 'a request header field sent on two or more lines',
 'C10r3/A': 'a non-string path parameter and a long segment with a multi-byte character across byte 256 of the error text',
 'C10r3/B': 'a page token whose JSON is followed by more data',
 'C11r3/A': 'a multipart body between limit+1 and limit+len(boundary)+6 bytes',
 'C11r3/B': 'a server whose default_request_body_max_bytes is 0 and an endpoint without an override',
 'C12r3/A': 'a typed response whose JSON is longer than 256 KiB',
 'C12r3/B': 'a declared-headers struct that is zero-sized (fields are marker types serialising to constants)',
 'C13r3/A': 'an error whose external message is empty while the internal one is not (fields are public)',
 'C13r3/B': 'an error whose error code is the empty string',
 'C14r3/A': 'a token whose decoded bytes are a valid token document followed by anything',
 'C14r3/B': 'a valid token surrounded by whitespace (also: an over-long run of whitespace after a 512-byte token)',
 'C15r3/A': 'a next-page request whose query string is longer than 512 bytes (token near the documented maximum plus a limit parameter)',
 'C15r3/B': 'a scan that needs more than 10000 requests, through the test_util::iter_collection client helper',
 'C20r3/A': 'a TLS server and a channel endpoint: the TLS accept loop serves connections without upgrade support',
 'C20r3/B': 'a channel handler using read_exact on a message that arrives in two or more TCP segments',
}
NEEDS4 = {
 'C01r4/A': 'a path that input_path_to_segments refuses (`/%ff`, `/a/../b`) and an endpoint reachable with zero segments: the error is swallowed and the root endpoint answers',
 'C01r4/B': 'a wildcard endpoint and `%2F` inside a segment matched by the wildcard: the list handed to the handler is re-split on `/`',
 'C04r4/A': 'a HEAD request for a path that has a GET endpoint but no HEAD endpoint: the GET handler runs',
 'C04r4/B': 'an endpoint registered with an extension method containing a lower-case letter (`purge`)',
 'C09r4/A': 'a chunked request body of two or more chunks: only the first chunk is delivered',
 'C09r4/B': 'a path segment made only of three or more dots (`...`): refused as a dot-segment',
 'C10r4/A': 'a Content-Type that starts with the endpoint\'s media type (`application/json-patch+json`)',
 'C10r4/B': 'a text path parameter whose percent-escapes are not UTF-8 (`%FF`): replaced by U+FFFD and delivered',
 'C11r4/A': 'a small Content-Length header next to chunked framing with a body over the limit (buffered extractors)',
 'C11r4/B': 'an endpoint whose request_body_max_bytes is set twice through the builder: the first value stays',
 'C12r4/A': 'an illegal redirect location longer than 128 bytes with a multi-byte character across byte 128: panic instead of an error',
 'C12r4/B': 'a declared-headers struct whose serde field name contains an upper-case letter',
 'C13r4/A': 'more than 65536 requests served by one process: the request id repeats',
 'C13r4/B': 'a status code 309..=399 offered to ClientErrorStatusCode',
 'C14r4/A': 'a page selector with a 128-bit integer or a map with integer keys (token parsed through serde\'s buffered Content)',
 'C14r4/B': 'a token longer than 512 bytes with a multi-byte character across byte 16: panic instead of 400',
}
NEEDS4B = {
 'C02r4/A': 'a trait-based API (#[dropshot::api_description]) whose tag_config declares tags without an explicit allow_other_tags, and an endpoint with an undeclared tag',
 'C02r4/B': 'an unpublished endpoint (visible = false) whose Path<..> parameters do not match the variables of its path template: the check is skipped for it',
 'C03r4/A': 'a path without percent signs whose last segment is a literal `.` or `..` with no trailing slash (`/files/a/..`): a fast path skips the dot-segment screen',
 'C03r4/B': 'a refused path longer than 96 bytes with a multi-byte character across byte 96: the error message slices it and panics',
 'C05r4/A': 'the same method on a path (until V) and on the wildcard below it (from V): a request for the path at a version >= V is answered 405 instead of reaching the wildcard endpoint',
 'C05r4/B': 'an OPTIONS request against a versioned server: the version policy is not consulted and the first registered OPTIONS endpoint answers at any version',
 'C06r4/A': 'two tags that differ only in letter case (`Widgets` / `widgets`): the document is not byte-stable between two generations',
 'C06r4/B': 'a channel (#[channel]) marked unpublished or deprecated: the two flags are swapped by the macro',
 'C08r4/A': 'a `number` schema whose lower and upper bounds differ in exclusivity: exclusiveMinimum and exclusiveMaximum are crossed',
 'C08r4/B': 'a response type whose inline schema is `not: {type: T}`: taken for the void schema, no body schema published',
 'C15r4/A': 'a first-page scan parameter whose name has an upper-case letter (`sortBy`): names are lower-cased before the scan type sees them',
 'C15r4/B': 'first-page parameters the scan type does not declare that sort before a declared one: only as many entries as declared fields are looked at',
 'C20r4/A': 'an API whose only channel endpoints are unpublished: the connection is served without upgrade support',
 'C20r4/B': 'a handshake request carrying `Content-Length: 0`: refused although all four handshake elements are present',
}
import sys
WAVE4B = '--wave4b' in sys.argv
if WAVE4B: sys.argv.append('--wave4'); NEEDS4 = NEEDS4B
WAVE3 = '--wave3' in sys.argv
WAVE4 = '--wave4' in sys.argv
items = NEEDS4.items() if WAVE4 else NEEDS3.items() if WAVE3 else NEEDS.items()
for key, needs in items:
    idr, ab = key.split('/')
    pid = idr[:-2]
    src = f'{V}/.build/incoming/{key}'
    dst = f'{V}/seeded/{pid}-{("G" if ab == "A" else "H") if WAVE4 else ("E" if ab == "A" else "F") if WAVE3 else ("C" if ab == "A" else "D")}'
    os.makedirs(dst, exist_ok=True)
    for f in ('patch.diff', 'demo.rs', 'demo_howto.md', 'notes.md'):
        shutil.copyfile(f'{src}/{f}', f'{dst}/{f}')
    if os.path.exists(f'{src}/patch.rebased.diff'): shutil.copyfile(f'{src}/patch.rebased.diff', f'{dst}/patch.diff')
    conf = json.load(open(f'{V}/.build/confirm/{idr}_{ab}.json'))
    assert conf['applies'] and conf['demo_on_head_rc'] == 0 and conf['demo_with_patch_rc'] != 0 and conf['suite_with_patch_ok'], conf
    notes = open(f'{src}/notes.md').read()
    summary = ' '.join(notes.split())[:300]
    meta = {'property': pid, 'variant': os.path.basename(dst).split('-')[1], 'wave': 4 if WAVE4 else 3 if WAVE3 else 2,
            'origin': 'fresh sub-agent given only the property text (plus a note on which places earlier seeders had already changed) and a scratch worktree of /repo',
            'base_commit': subprocess.run(['git', '-C', '/repo', 'rev-parse', '--short', 'HEAD'], capture_output=True, text=True).stdout.strip(),
            'demo_test': f'dropshot/tests/{conf["demo_test"]}.rs (copy demo.rs there; cargo nextest run --offline -p dropshot --test {conf["demo_test"]})',
            'confirmed_by_me': {'how': 'tools/confirm_seeded.sh in a scratch worktree (/tmp/wt/confirm, removed afterwards)', 'demo_on_unpatched_HEAD': 'pass',
                                'demo_with_patch': 'fail', 'full_suite_with_patch': conf['suite_summary'], 'suite_tries': conf['suite_tries']},
            'what_it_needs_to_manifest': needs, 'summary': summary}
    json.dump(meta, open(f'{dst}/meta.json', 'w'), indent=1)
    print(dst)

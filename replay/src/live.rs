//! Loop-back HttpServer + raw TCP client, for the few things only visible on the wire.
use dropshot::ApiDescription;
use dropshot::ConfigDropshot;
use dropshot::ServerBuilder;
use serde_json::json;
use serde_json::Value;
use std::io::Read;
use std::io::Write;

pub struct RawResponse {
    pub status: u16,
    pub headers: Vec<(String, String)>,
    pub body: Vec<u8>,
    pub raw: Vec<u8>,
}

impl RawResponse {
    pub fn to_json(&self) -> Value {
        json!({
            "status": self.status,
            "headers": self.headers.iter().map(|(k, v)| json!([k, v])).collect::<Vec<_>>(),
            "body": String::from_utf8_lossy(&self.body),
        })
    }
    pub fn header_all(&self, name: &str) -> Vec<String> {
        self.headers
            .iter()
            .filter(|(k, _)| k.eq_ignore_ascii_case(name))
            .map(|(_, v)| v.clone())
            .collect()
    }
}

fn dechunk(mut b: &[u8]) -> Vec<u8> {
    let mut out = vec![];
    loop {
        let Some(pos) = b.windows(2).position(|w| w == b"\r\n") else { break };
        let line = String::from_utf8_lossy(&b[..pos]).to_string();
        let n = usize::from_str_radix(line.split(';').next().unwrap_or("0").trim(), 16).unwrap_or(0);
        b = &b[pos + 2..];
        if n == 0 || b.len() < n {
            break;
        }
        out.extend_from_slice(&b[..n]);
        b = &b[(n + 2).min(b.len())..];
    }
    out
}

pub fn parse_response(raw: &[u8]) -> Option<RawResponse> {
    let pos = raw.windows(4).position(|w| w == b"\r\n\r\n")?;
    let head = String::from_utf8_lossy(&raw[..pos]).to_string();
    let mut lines = head.split("\r\n");
    let status_line = lines.next()?;
    let status: u16 = status_line.split(' ').nth(1)?.parse().ok()?;
    let mut headers = vec![];
    for l in lines {
        if let Some(i) = l.find(':') {
            headers.push((l[..i].trim().to_string(), l[i + 1..].trim().to_string()));
        }
    }
    let mut body = raw[pos + 4..].to_vec();
    if headers
        .iter()
        .any(|(k, v)| k.eq_ignore_ascii_case("transfer-encoding") && v.to_ascii_lowercase().contains("chunked"))
    {
        body = dechunk(&body);
    }
    Some(RawResponse { status, headers, body, raw: raw.to_vec() })
}

/// Start a server for `api`, send each byte string on its own connection (in order), return the
/// parsed responses (None = connection closed without a parsable response).
pub fn serve_raw(
    api: ApiDescription<()>,
    default_max_bytes: usize,
    requests: Vec<Vec<Vec<u8>>>,
) -> Vec<Option<RawResponse>> {
    serve_raw_with(api, default_max_bytes, None, requests)
}

/// As `serve_raw`, with an explicit version policy.
pub fn serve_raw_with(
    api: ApiDescription<()>,
    default_max_bytes: usize,
    policy: Option<dropshot::VersionPolicy>,
    requests: Vec<Vec<Vec<u8>>>,
) -> Vec<Option<RawResponse>> {
    let rt = tokio::runtime::Builder::new_multi_thread()
        .worker_threads(2)
        .enable_all()
        .build()
        .expect("runtime");
    rt.block_on(async move {
        let log = slog::Logger::root(slog::Discard, slog::o!());
        let config = ConfigDropshot {
            bind_address: "127.0.0.1:0".parse().unwrap(),
            default_request_body_max_bytes: default_max_bytes,
            ..Default::default()
        };
        let mut builder = ServerBuilder::new(api, (), log).config(config);
        if let Some(p) = policy {
            builder = builder.version_policy(p);
        }
        let server = builder.start().expect("server start");
        let addr = server.local_addr();
        let mut out = vec![];
        for chunks in requests {
            let r = tokio::task::spawn_blocking(move || {
                let mut s = std::net::TcpStream::connect(addr).ok()?;
                s.set_read_timeout(Some(std::time::Duration::from_secs(10))).ok()?;
                for c in &chunks {
                    if s.write_all(c).is_err() {
                        break;
                    }
                    let _ = s.flush();
                    if chunks.len() > 1 {
                        std::thread::sleep(std::time::Duration::from_millis(15));
                    }
                }
                let mut buf = vec![];
                let mut tmp = [0u8; 65536];
                loop {
                    match s.read(&mut tmp) {
                        Ok(0) => break,
                        Ok(n) => {
                            buf.extend_from_slice(&tmp[..n]);
                            // a 101 response never closes by itself; a keep-alive response is complete once its body is in
                            if let Some(pos) = buf.windows(4).position(|w| w == b"\r\n\r\n") {
                                if buf.starts_with(b"HTTP/1.1 101") {
                                    break;
                                }
                                let head = String::from_utf8_lossy(&buf[..pos]).to_ascii_lowercase();
                                if let Some(cl) = head.split("\r\n").find_map(|l| l.strip_prefix("content-length:").map(|v| v.trim().parse::<usize>().unwrap_or(0))) {
                                    if buf.len() >= pos + 4 + cl {
                                        break;
                                    }
                                } else if head.contains("transfer-encoding: chunked") && buf.ends_with(b"0\r\n\r\n") {
                                    break;
                                }
                            }
                        }
                        Err(_) => break,
                    }
                }
                parse_response(&buf)
            })
            .await
            .ok()
            .flatten();
            out.push(r);
        }
        let _ = tokio::time::timeout(std::time::Duration::from_millis(500), server.close()).await;
        out
    })
}

//! Further replay operations (one per property family).
use serde_json::json;
use serde_json::Value;

pub fn dispatch(op: &str, case: &Value) -> Value {
    match op {
        "from_until" => op_from_until(case),
        "version_header" => op_version_header(case),
        _ => json!({"error": format!("unknown op {}", op)}),
    }
}

/// {"op":"from_until","a":"1.0.0","b":"2.0.0"} -> {"ok": bool}
fn op_from_until(case: &Value) -> Value {
    let a = semver::Version::parse(case["a"].as_str().unwrap()).unwrap();
    let b = semver::Version::parse(case["b"].as_str().unwrap()).unwrap();
    json!({"ok": dropshot::ApiEndpointVersions::from_until(a, b).is_ok()})
}

/// {"op":"version_header","header": null|"non-ascii"|text,"max":"2.0.0"} -> {"ok": "1.0.0"} | {"err": 400}
fn op_version_header(case: &Value) -> Value {
    use dropshot::DynamicVersionPolicy;
    let max = semver::Version::parse(case["max"].as_str().unwrap()).unwrap();
    let name = http::HeaderName::from_static("api-version");
    let policy = dropshot::ClientSpecifiesVersionInHeader::new(name.clone(), max);
    let mut b = hyper::Request::builder().method("GET").uri("/x");
    match case["header"].as_str() {
        None => {}
        Some("non-ascii") => {
            b = b.header(name, http::HeaderValue::from_bytes(&[0xf0, 0x28, 0x8c, 0xbc]).unwrap());
        }
        Some(s) => {
            b = b.header(name, s);
        }
    }
    let req = b.body(dropshot::Body::empty()).unwrap();
    let log = slog::Logger::root(slog::Discard, slog::o!());
    match crate::quiet(|| policy.request_extract_version(&req, &log)) {
        Err(p) => json!({"panic": p}),
        Ok(Ok(v)) => json!({"ok": v.to_string()}),
        Ok(Err(e)) => json!({"err": e.status_code.as_u16()}),
    }
}

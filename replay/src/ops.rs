//! Further replay operations (one per property family).
use serde_json::json;
use serde_json::Value;

pub fn dispatch(op: &str, case: &Value) -> Value {
    match op {
        "from_until" => op_from_until(case),
        "version_header" => op_version_header(case),
        "path" => op_path(case),
        "body" => op_body(case),
        "http_error" => op_http_error(case),
        "status_code" => op_status_code(case),
        "status_scan" => op_status_scan(case),
        _ => json!({"error": format!("unknown op {}", op)}),
    }
}

/// {"op":"from_until","a":"1.0.0","b":"2.0.0"} -> {"ok": bool}
fn op_from_until(case: &Value) -> Value {
    let a = semver::Version::parse(case["a"].as_str().unwrap()).unwrap();
    let b = semver::Version::parse(case["b"].as_str().unwrap()).unwrap();
    json!({"ok": dropshot::ApiEndpointVersions::from_until(a, b).is_ok()})
}

/// {"op":"version_header","header": null|"non-ascii"|text,"max":"2.0.0"} -> {"ok": "1.0.0"} | {"err": 400}
fn op_version_header(case: &Value) -> Value {
    use dropshot::DynamicVersionPolicy;
    let max = semver::Version::parse(case["max"].as_str().unwrap()).unwrap();
    let name = http::HeaderName::from_static("api-version");
    let policy = dropshot::ClientSpecifiesVersionInHeader::new(name.clone(), max);
    let mut b = hyper::Request::builder().method("GET").uri("/x");
    match case["header"].as_str() {
        None => {}
        Some("non-ascii") => {
            b = b.header(name, http::HeaderValue::from_bytes(&[0xf0, 0x28, 0x8c, 0xbc]).unwrap());
        }
        Some(s) => {
            b = b.header(name, s);
        }
    }
    let req = b.body(dropshot::Body::empty()).unwrap();
    let log = slog::Logger::root(slog::Discard, slog::o!());
    match crate::quiet(|| policy.request_extract_version(&req, &log)) {
        Err(p) => json!({"panic": p}),
        Ok(Ok(v)) => json!({"ok": v.to_string()}),
        Ok(Err(e)) => json!({"err": e.status_code.as_u16()}),
    }
}

// ---------------------------------------------------------------------------------- C03
use dropshot::endpoint;
use dropshot::ApiDescription;
use dropshot::HttpError;
use dropshot::HttpResponseOk;
use dropshot::Path;
use dropshot::RequestContext;
use schemars::JsonSchema;
use serde::Deserialize;

#[derive(Deserialize, JsonSchema)]
struct WildPath {
    r: Vec<String>,
}
#[derive(Deserialize, JsonSchema)]
struct VarPath {
    x: String,
}
#[derive(Deserialize, JsonSchema)]
struct Var2Path {
    x: String,
    y: String,
}

fn bytes_json(v: &[String]) -> Vec<Vec<u8>> {
    v.iter().map(|s| s.as_bytes().to_vec()).collect()
}

#[endpoint { method = GET, path = "/{r:.*}", unpublished = true }]
async fn echo_wild(_rqctx: RequestContext<()>, p: Path<WildPath>) -> Result<HttpResponseOk<Vec<Vec<u8>>>, HttpError> {
    Ok(HttpResponseOk(bytes_json(&p.into_inner().r)))
}
#[endpoint { method = GET, path = "/{x}" }]
async fn echo_var(_rqctx: RequestContext<()>, p: Path<VarPath>) -> Result<HttpResponseOk<Vec<Vec<u8>>>, HttpError> {
    Ok(HttpResponseOk(bytes_json(&[p.into_inner().x])))
}
#[endpoint { method = GET, path = "/{x}/{y}" }]
async fn echo_var2(_rqctx: RequestContext<()>, p: Path<Var2Path>) -> Result<HttpResponseOk<Vec<Vec<u8>>>, HttpError> {
    let p = p.into_inner();
    Ok(HttpResponseOk(bytes_json(&[p.x, p.y])))
}

fn path_api(route: &str) -> ApiDescription<()> {
    let mut api = ApiDescription::new();
    match route {
        "wild" => api.register(echo_wild).unwrap(),
        "var" => api.register(echo_var).unwrap(),
        _ => api.register(echo_var2).unwrap(),
    }
    api
}

/// {"op":"path","raw":[bytes],"route":"wild"|"var"|"var2"}
/// -> {"status": 200|400|404, "variables_debug": {...}, "handler_saw": [[bytes]]|null, "wire_status": n|null}
fn op_path(case: &Value) -> Value {
    let raw: Vec<u8> = case["raw"].as_array().unwrap().iter().map(|x| x.as_u64().unwrap() as u8).collect();
    let route = case["route"].as_str().unwrap_or("wild");
    let Ok(path) = String::from_utf8(raw.clone()) else {
        return json!({"error": "raw path is not UTF-8"});
    };
    let router = path_api(route).into_router();
    let r = crate::quiet(|| router.lookup_route(&http::Method::GET, path.as_str().into(), None));
    let (status, vars) = match r {
        Err(p) => return json!({"panic": p}),
        Ok(Ok(res)) => (
            200u16,
            res.endpoint
                .variables
                .iter()
                .map(|(k, v)| (k.clone(), Value::String(format!("{:?}", v))))
                .collect::<serde_json::Map<String, Value>>(),
        ),
        Ok(Err(e)) => (e.status_code.as_u16(), serde_json::Map::new()),
    };
    // through a live server only if the bytes can be written as an HTTP/1.1 request target
    let uri_safe = !raw.is_empty()
        && raw[0] == b'/'
        && raw.iter().all(|b| (0x21..=0x7e).contains(b) && !b"\"<>\\^`{|}#?".contains(b));
    let (mut handler_saw, mut wire_status) = (Value::Null, Value::Null);
    if uri_safe {
        let mut rq = b"GET ".to_vec();
        rq.extend_from_slice(&raw);
        rq.extend_from_slice(b" HTTP/1.1\r\nHost: replay\r\nConnection: close\r\n\r\n");
        let resp = crate::live::serve_raw(path_api(route), 1024, vec![vec![rq]]);
        if let Some(Some(resp)) = resp.into_iter().next() {
            wire_status = json!(resp.status);
            if resp.status == 200 {
                handler_saw = serde_json::from_slice(&resp.body).unwrap_or(Value::Null);
            }
        }
    }
    json!({"status": status, "variables_debug": vars, "handler_saw": handler_saw, "wire_status": wire_status})
}

// ---------------------------------------------------------------------------------- C11
use dropshot::ApiEndpoint;
use dropshot::StreamingBody;
use dropshot::TypedBody;
use dropshot::UntypedBody;
use futures::StreamExt;
use std::sync::atomic::AtomicUsize;
use std::sync::atomic::Ordering;

static SEEN_MAX: AtomicUsize = AtomicUsize::new(0);

#[endpoint { method = PUT, path = "/untyped" }]
async fn body_untyped(_rqctx: RequestContext<()>, body: UntypedBody) -> Result<HttpResponseOk<usize>, HttpError> {
    let n = body.as_bytes().len();
    SEEN_MAX.fetch_max(n, Ordering::SeqCst);
    Ok(HttpResponseOk(n))
}
#[endpoint { method = PUT, path = "/streaming" }]
async fn body_streaming(_rqctx: RequestContext<()>, body: StreamingBody) -> Result<HttpResponseOk<usize>, HttpError> {
    let stream = body.into_stream();
    tokio::pin!(stream);
    let mut n = 0usize;
    while let Some(chunk) = stream.next().await {
        let chunk = chunk?;
        n += chunk.len();
        SEEN_MAX.fetch_max(n, Ordering::SeqCst);
    }
    Ok(HttpResponseOk(n))
}
#[endpoint { method = PUT, path = "/typed" }]
async fn body_typed(_rqctx: RequestContext<()>, body: TypedBody<String>) -> Result<HttpResponseOk<usize>, HttpError> {
    let n = body.into_inner().len() + 2;
    SEEN_MAX.fetch_max(n, Ordering::SeqCst);
    Ok(HttpResponseOk(n))
}

/// {"op":"body","chunks":[n..],"default":n,"override":n|null,"extractor":"untyped"|"streaming"|"typed"}
fn op_body(case: &Value) -> Value {
    let chunks: Vec<usize> = case["chunks"].as_array().unwrap().iter().map(|x| x.as_u64().unwrap() as usize).collect();
    let default = case["default"].as_u64().unwrap() as usize;
    let ovr = case["override"].as_u64().map(|x| x as usize);
    let ext = case["extractor"].as_str().unwrap_or("untyped");
    let mut e: ApiEndpoint<()> = match ext {
        "streaming" => ApiEndpoint::from(body_streaming),
        "typed" => ApiEndpoint::from(body_typed),
        _ => ApiEndpoint::from(body_untyped),
    };
    e.request_body_max_bytes = ovr;
    let mut api = ApiDescription::new();
    api.register(e).unwrap();
    let total: usize = chunks.iter().sum();
    // payload: a JSON string for the typed extractor, plain bytes otherwise
    let payload: Vec<u8> = if ext == "typed" && total >= 2 {
        let mut p = vec![b'"'];
        p.extend(std::iter::repeat(b'a').take(total - 2));
        p.push(b'"');
        p
    } else {
        vec![b'x'; total]
    };
    let mut writes: Vec<Vec<u8>> = vec![format!(
        "PUT /{} HTTP/1.1\r\nHost: replay\r\nConnection: close\r\nContent-Type: application/json\r\nTransfer-Encoding: chunked\r\n\r\n",
        ext
    )
    .into_bytes()];
    let mut off = 0;
    for c in &chunks {
        if *c == 0 {
            continue;
        }
        let mut w = format!("{:x}\r\n", c).into_bytes();
        w.extend_from_slice(&payload[off..off + c]);
        w.extend_from_slice(b"\r\n");
        off += c;
        writes.push(w);
    }
    writes.push(b"0\r\n\r\n".to_vec());
    SEEN_MAX.store(0, Ordering::SeqCst);
    let resp = crate::live::serve_raw(api, default, vec![writes]);
    let seen_max = SEEN_MAX.load(Ordering::SeqCst);
    match resp.into_iter().next().flatten() {
        None => json!({"status": 0, "seen_max": seen_max}),
        Some(r) => {
            let seen: Value = if r.status == 200 { serde_json::from_slice(&r.body).unwrap_or(Value::Null) } else { Value::Null };
            json!({"status": r.status, "seen": seen, "seen_max": seen_max, "body": String::from_utf8_lossy(&r.body)})
        }
    }
}

// ---------------------------------------------------------------------------------- C13
/// {"op":"http_error","ctor":..,"status":n,"code":s|null,"message":s,"internal":s,"headers":[[n,v]..],"request_id":s}
fn op_http_error(case: &Value) -> Value {
    use dropshot::ClientErrorStatusCode;
    use http_body_util::BodyExt;
    let code = case["code"].as_str().map(|s| s.to_string());
    let msg = case["message"].as_str().unwrap_or("m").to_string();
    let internal = case["internal"].as_str().unwrap_or("i").to_string();
    let status = case["status"].as_u64().unwrap_or(400) as u16;
    let ctor = case["ctor"].as_str().unwrap_or("").to_string();
    let rid = case["request_id"].as_str().unwrap_or("rid").to_string();
    let headers: Vec<(String, String)> = case["headers"].as_array().cloned().unwrap_or_default().iter()
        .map(|p| (p[0].as_str().unwrap().to_string(), p[1].as_str().unwrap().to_string())).collect();
    let r = crate::quiet(move || {
        let cs = || ClientErrorStatusCode::from_u16(status).expect("4xx");
        let mut e = match ctor.as_str() {
            "for_client_error" => HttpError::for_client_error(code, cs(), msg),
            "for_internal_error" => HttpError::for_internal_error(internal),
            "for_unavail" => HttpError::for_unavail(code, internal),
            "for_bad_request" => HttpError::for_bad_request(code, msg),
            "for_client_error_with_status" => HttpError::for_client_error_with_status(code, cs()),
            _ => HttpError::for_not_found(code, internal),
        };
        for (n, v) in &headers {
            e.add_header(n.as_str(), v.as_str()).expect("header");
        }
        e.into_response(&rid)
    });
    match r {
        Err(p) => json!({"panic": p}),
        Ok(resp) => {
            let status = resp.status().as_u16();
            let hs: Vec<Value> = resp.headers().iter().map(|(k, v)| json!([k.as_str(), v.to_str().unwrap_or("?")])).collect();
            let get = |n: &str| -> Vec<String> { resp.headers().get_all(n).iter().map(|v| v.to_str().unwrap_or("?").to_string()).collect() };
            let (xr, ct) = (get("x-request-id"), get("content-type"));
            let rt = tokio::runtime::Builder::new_current_thread().enable_all().build().unwrap();
            let bytes = rt.block_on(async move { resp.into_body().collect().await.map(|c| c.to_bytes().to_vec()).unwrap_or_default() });
            let raw = String::from_utf8_lossy(&bytes).to_string();
            let body: Value = serde_json::from_slice(&bytes).unwrap_or(Value::Null);
            json!({"status": status, "headers": hs, "x_request_id": xr, "content_type": ct, "body": body, "raw_body": raw})
        }
    }
}

/// {"op":"status_code","value":n} -> which refinement types accept it
fn op_status_code(case: &Value) -> Value {
    let v = case["value"].as_u64().unwrap() as u16;
    let e = dropshot::ErrorStatusCode::from_u16(v);
    let c = dropshot::ClientErrorStatusCode::from_u16(v);
    let as_client = e.as_ref().ok().map(|e| e.as_client_error().is_ok());
    json!({"value": v, "error": e.is_ok(), "client": c.is_ok(), "error_as_client": as_client,
           "stored": e.ok().map(|e| e.as_u16())})
}

/// {"op":"status_scan"} -> every u16 whose acceptance by the refinement types is wrong
fn op_status_scan(_case: &Value) -> Value {
    let mut bad = vec![];
    for v in 0..=u16::MAX {
        let e = dropshot::ErrorStatusCode::from_u16(v);
        let c = dropshot::ClientErrorStatusCode::from_u16(v);
        let mut ok = e.is_ok() == (400..=599).contains(&v) && c.is_ok() == (400..=499).contains(&v);
        if let Ok(e) = &e {
            ok = ok && e.as_u16() == v && e.as_client_error().is_ok() == (v <= 499);
        }
        if let Ok(s) = http::StatusCode::from_u16(v) {
            ok = ok && dropshot::ErrorStatusCode::from_status(s).is_ok() == (400..=599).contains(&v)
                && dropshot::ClientErrorStatusCode::from_status(s).is_ok() == (400..=499).contains(&v);
        }
        if !ok && bad.len() < 8 {
            bad.push(v);
        }
    }
    json!({"mismatches": bad})
}

//! Further replay operations (one per property family).
use serde_json::json;
use serde_json::Value;

pub fn dispatch(op: &str, case: &Value) -> Value {
    match op {
        "from_until" => op_from_until(case),
        "version_header" => op_version_header(case),
        "versioned_server" => op_versioned_server(case),
        "path" => op_path(case),
        "body" => op_body(case),
        "multipart_body" => op_multipart_body(case),
        "http_error" => op_http_error(case),
        "status_code" => op_status_code(case),
        "status_scan" => op_status_scan(case),
        "page_token" => op_page_token(case),
        "wide_token" => op_wide_token(case),
        "token_in" => op_token_in(case),
        "whichpage" => op_whichpage(case),
        "results_page" => op_results_page(case),
        "page_limit" => op_page_limit(case),
        "page_limit_bad" => op_page_limit_bad(case),
        "scan" => op_scan(case),
        "token_transport" => op_token_transport(case),
        "response" => op_response(case),
        "response_headers" => op_response_headers(case),
        "ws_handshake" => op_ws_handshake(case),
        "ws_stream" => op_ws_stream(case),
        "typed_request" => op_typed_request(case),
        "openapi" => op_openapi(case),
        "echo" => op_echo(case),
        "request_id_relay" => op_request_id_relay(case),
        "request_id_many" => op_request_id_many(case),
        "j2oas" => op_j2oas(case),
        "register_params" => op_register_params(case),
        "register_tags" => op_register_tags(case),
        "trait_tags" => op_trait_tags(case),
        _ => json!({"error": format!("unknown op {}", op)}),
    }
}

/// {"op":"from_until","a":"1.0.0","b":"2.0.0"} -> {"ok": bool}
fn op_from_until(case: &Value) -> Value {
    let a = semver::Version::parse(case["a"].as_str().unwrap()).unwrap();
    let b = semver::Version::parse(case["b"].as_str().unwrap()).unwrap();
    json!({"ok": dropshot::ApiEndpointVersions::from_until(a, b).is_ok()})
}

/// {"op":"version_header","header": null|"non-ascii"|text,"max":"2.0.0"} -> {"ok": "1.0.0"} | {"err": 400}
fn op_version_header(case: &Value) -> Value {
    use dropshot::DynamicVersionPolicy;
    let max = semver::Version::parse(case["max"].as_str().unwrap()).unwrap();
    let name = http::HeaderName::from_static("api-version");
    let policy = dropshot::ClientSpecifiesVersionInHeader::new(name.clone(), max);
    let mut b = hyper::Request::builder().method("GET").uri("/x");
    match case["header"].as_str() {
        None => {}
        Some("non-ascii") => {
            b = b.header(name, http::HeaderValue::from_bytes(&[0xf0, 0x28, 0x8c, 0xbc]).unwrap());
        }
        Some(s) => {
            b = b.header(name, s);
        }
    }
    let req = b.body(dropshot::Body::empty()).unwrap();
    let log = slog::Logger::root(slog::Discard, slog::o!());
    match crate::quiet(|| policy.request_extract_version(&req, &log)) {
        Err(p) => json!({"panic": p}),
        Ok(Ok(v)) => json!({"ok": v.to_string()}),
        Ok(Err(e)) => json!({"err": e.status_code.as_u16()}),
    }
}

#[dropshot::endpoint { method = GET, path = "/placeholder-which" }]
async fn which_handler(
    rqctx: dropshot::RequestContext<()>,
) -> Result<hyper::Response<dropshot::Body>, dropshot::HttpError> {
    // the operation id travels in a header as well: a HEAD response has no body
    let id = rqctx.endpoint.operation_id.clone();
    Ok(hyper::Response::builder()
        .status(200)
        .header("x-handler", id.clone())
        .header("content-type", "application/json")
        .body(dropshot::Body::from(serde_json::to_string(&id).unwrap()))
        .unwrap())
}

/// A real server with the header version policy: which handler (by operation id) serves each request.
/// {"op":"versioned_server","endpoints":[{id,method,path,versions}],"policy":"dynamic"|"unversioned","max":"2.0.0",
///  "requests":[{"method","path","header":null|"non-ascii"|text}]} -> {"registered":bool,"responses":[{"status","handler"}]}
fn op_versioned_server(case: &Value) -> Value {
    let mut api = dropshot::ApiDescription::<()>::new();
    for spec in case["endpoints"].as_array().unwrap() {
        let mut e: dropshot::ApiEndpoint<()> = dropshot::ApiEndpoint::from(which_handler);
        e.operation_id = spec["id"].as_str().unwrap_or("op").to_string();
        e.method = http::Method::from_bytes(spec["method"].as_str().unwrap_or("GET").as_bytes()).expect("method");
        e.path = spec["path"].as_str().unwrap_or("/").to_string();
        e.versions = match crate::parse_versions(&spec["versions"]) {
            Ok(v) => v,
            Err(e) => return json!({"registered": false, "why": e}),
        };
        if let Err(e) = api.register(e) {
            return json!({"registered": false, "why": e.to_string()});
        }
    }
    let policy = match case["policy"].as_str().unwrap_or("dynamic") {
        "unversioned" => None,
        _ => {
            let max = semver::Version::parse(case["max"].as_str().unwrap()).unwrap();
            let name = http::HeaderName::from_static("api-version");
            Some(dropshot::VersionPolicy::Dynamic(Box::new(dropshot::ClientSpecifiesVersionInHeader::new(name, max))))
        }
    };
    let mut reqs = vec![];
    for r in case["requests"].as_array().unwrap() {
        let mut rq = format!("{} {} HTTP/1.1\r\nhost: x\r\n", r["method"].as_str().unwrap_or("GET"), r["path"].as_str().unwrap_or("/")).into_bytes();
        match r["header"].as_str() {
            None => {}
            Some("non-ascii") => {
                rq.extend_from_slice(b"api-version: ");
                rq.extend_from_slice(&[0xf0, 0x28, 0x8c, 0xbc]);
                rq.extend_from_slice(b"\r\n");
            }
            Some(s) => rq.extend_from_slice(format!("api-version: {}\r\n", s).as_bytes()),
        }
        rq.extend_from_slice(b"\r\n");
        reqs.push(vec![rq]);
    }
    let resps = crate::live::serve_raw_with(api, 1024, policy, reqs);
    let out: Vec<Value> = resps
        .into_iter()
        .map(|r| match r {
            None => json!({"status": null}),
            Some(r) => {
                let handler = if r.status == 200 { r.header_all("x-handler").into_iter().next() } else { None };
                json!({"status": r.status, "handler": handler})
            }
        })
        .collect();
    json!({"registered": true, "responses": out})
}

// ---------------------------------------------------------------------------------- C03
use dropshot::endpoint;
use dropshot::ApiDescription;
use dropshot::HttpError;
use dropshot::HttpResponseOk;
use dropshot::Path;
use dropshot::RequestContext;
use schemars::JsonSchema;
use serde::Deserialize;

#[derive(Deserialize, JsonSchema)]
struct WildPath {
    r: Vec<String>,
}
#[derive(Deserialize, JsonSchema)]
struct VarPath {
    x: String,
}
#[derive(Deserialize, JsonSchema)]
struct Var2Path {
    x: String,
    y: String,
}

fn bytes_json(v: &[String]) -> Vec<Vec<u8>> {
    v.iter().map(|s| s.as_bytes().to_vec()).collect()
}

#[endpoint { method = GET, path = "/{r:.*}", unpublished = true }]
async fn echo_wild(_rqctx: RequestContext<()>, p: Path<WildPath>) -> Result<HttpResponseOk<Vec<Vec<u8>>>, HttpError> {
    Ok(HttpResponseOk(bytes_json(&p.into_inner().r)))
}
#[endpoint { method = GET, path = "/{x}" }]
async fn echo_var(_rqctx: RequestContext<()>, p: Path<VarPath>) -> Result<HttpResponseOk<Vec<Vec<u8>>>, HttpError> {
    Ok(HttpResponseOk(bytes_json(&[p.into_inner().x])))
}
#[endpoint { method = GET, path = "/{x}/{y}" }]
async fn echo_var2(_rqctx: RequestContext<()>, p: Path<Var2Path>) -> Result<HttpResponseOk<Vec<Vec<u8>>>, HttpError> {
    let p = p.into_inner();
    Ok(HttpResponseOk(bytes_json(&[p.x, p.y])))
}

fn path_api(route: &str) -> ApiDescription<()> {
    let mut api = ApiDescription::new();
    match route {
        "wild" => api.register(echo_wild).unwrap(),
        "var" => api.register(echo_var).unwrap(),
        _ => api.register(echo_var2).unwrap(),
    }
    api
}

/// {"op":"path","raw":[bytes],"route":"wild"|"var"|"var2"}
/// -> {"status": 200|400|404, "variables_debug": {...}, "handler_saw": [[bytes]]|null, "wire_status": n|null}
fn op_path(case: &Value) -> Value {
    let raw: Vec<u8> = case["raw"].as_array().unwrap().iter().map(|x| x.as_u64().unwrap() as u8).collect();
    let route = case["route"].as_str().unwrap_or("wild");
    let Ok(path) = String::from_utf8(raw.clone()) else {
        return json!({"error": "raw path is not UTF-8"});
    };
    let router = path_api(route).into_router();
    let r = crate::quiet(|| router.lookup_route(&http::Method::GET, path.as_str().into(), None));
    let (status, vars) = match r {
        Err(p) => return json!({"panic": p}),
        Ok(Ok(res)) => (
            200u16,
            res.endpoint
                .variables
                .iter()
                .map(|(k, v)| (k.clone(), Value::String(format!("{:?}", v))))
                .collect::<serde_json::Map<String, Value>>(),
        ),
        Ok(Err(e)) => (e.status_code.as_u16(), serde_json::Map::new()),
    };
    // through a live server only if the bytes can be written as an HTTP/1.1 request target
    let uri_safe = !raw.is_empty()
        && raw[0] == b'/'
        && raw.iter().all(|b| (0x21..=0x7e).contains(b) && !b"\"<>\\^`{|}#?".contains(b));
    let (mut handler_saw, mut wire_status) = (Value::Null, Value::Null);
    if uri_safe {
        let mut rq = b"GET ".to_vec();
        rq.extend_from_slice(&raw);
        rq.extend_from_slice(b" HTTP/1.1\r\nHost: replay\r\nConnection: close\r\n\r\n");
        let resp = crate::live::serve_raw(path_api(route), 1024, vec![vec![rq]]);
        if let Some(Some(resp)) = resp.into_iter().next() {
            wire_status = json!(resp.status);
            if resp.status == 200 {
                handler_saw = serde_json::from_slice(&resp.body).unwrap_or(Value::Null);
            }
        }
    }
    json!({"status": status, "variables_debug": vars, "handler_saw": handler_saw, "wire_status": wire_status})
}

// ---------------------------------------------------------------------------------- C11
use dropshot::ApiEndpoint;
use dropshot::StreamingBody;
use dropshot::TypedBody;
use dropshot::UntypedBody;
use futures::StreamExt;
use std::sync::atomic::AtomicUsize;
use std::sync::atomic::Ordering;

static SEEN_MAX: AtomicUsize = AtomicUsize::new(0);

#[endpoint { method = PUT, path = "/untyped" }]
async fn body_untyped(_rqctx: RequestContext<()>, body: UntypedBody) -> Result<HttpResponseOk<usize>, HttpError> {
    let n = body.as_bytes().len();
    SEEN_MAX.fetch_max(n, Ordering::SeqCst);
    Ok(HttpResponseOk(n))
}
#[endpoint { method = PUT, path = "/streaming" }]
async fn body_streaming(_rqctx: RequestContext<()>, body: StreamingBody) -> Result<HttpResponseOk<usize>, HttpError> {
    let stream = body.into_stream();
    tokio::pin!(stream);
    let mut n = 0usize;
    while let Some(chunk) = stream.next().await {
        let chunk = chunk?;
        n += chunk.len();
        SEEN_MAX.fetch_max(n, Ordering::SeqCst);
    }
    Ok(HttpResponseOk(n))
}
#[endpoint { method = PUT, path = "/typed" }]
async fn body_typed(_rqctx: RequestContext<()>, body: TypedBody<String>) -> Result<HttpResponseOk<usize>, HttpError> {
    let n = body.into_inner().len() + 2;
    SEEN_MAX.fetch_max(n, Ordering::SeqCst);
    Ok(HttpResponseOk(n))
}

#[endpoint { method = PUT, path = "/multipart" }]
async fn body_multipart(_rqctx: RequestContext<()>, mut body: dropshot::MultipartBody) -> Result<HttpResponseOk<usize>, HttpError> {
    let mut n = 0usize;
    loop {
        match body.content.next_field().await {
            Ok(Some(mut field)) => loop {
                match field.chunk().await {
                    Ok(Some(c)) => {
                        n += c.len();
                        SEEN_MAX.fetch_max(n, Ordering::SeqCst);
                    }
                    Ok(None) => break,
                    Err(e) => return Err(HttpError::for_bad_request(None, format!("multipart: {}", e))),
                }
            },
            Ok(None) => break,
            Err(e) => return Err(HttpError::for_bad_request(None, format!("multipart: {}", e))),
        }
    }
    Ok(HttpResponseOk(n))
}

/// {"op":"multipart_body","field_len":n,"default":n,"override":n|null} -> {"status","seen_max","body_len"}: one form field of
/// `field_len` bytes; `seen_max` = field bytes the handler observed
fn op_multipart_body(case: &Value) -> Value {
    let default = case["default"].as_u64().unwrap() as usize;
    let mut e: ApiEndpoint<()> = ApiEndpoint::from(body_multipart);
    e.request_body_max_bytes = case["override"].as_u64().map(|x| x as usize);
    let mut api = ApiDescription::new();
    api.register(e).unwrap();
    // boundary of the requested length; the field sized so that the whole body has exactly `body_len` bytes when that is given
    let boundary: String = "B".repeat(case["boundary_len"].as_u64().unwrap_or(1).max(1) as usize);
    let head = format!("--{}\r\nContent-Disposition: form-data; name=\"f\"\r\n\r\n", boundary).into_bytes();
    let tail = format!("\r\n--{}--\r\n", boundary).into_bytes();
    let n = match case["body_len"].as_u64() {
        Some(total) => {
            let total = total as usize;
            if total < head.len() + tail.len() { return json!({"unbuildable": "body shorter than the form framing"}); }
            total - head.len() - tail.len()
        }
        None => case["field_len"].as_u64().unwrap() as usize,
    };
    let mut payload = head.clone();
    payload.extend(std::iter::repeat(b'x').take(n));
    payload.extend_from_slice(&tail);
    let mut rq = format!("PUT /multipart HTTP/1.1\r\nHost: replay\r\nConnection: close\r\nContent-Type: multipart/form-data; boundary={}\r\nContent-Length: {}\r\n\r\n", boundary, payload.len()).into_bytes();
    rq.extend_from_slice(&payload);
    SEEN_MAX.store(0, Ordering::SeqCst);
    let resp = crate::live::serve_raw(api, default, vec![vec![rq]]);
    let seen_max = SEEN_MAX.load(Ordering::SeqCst);
    match resp.into_iter().next().flatten() {
        None => json!({"status": 0, "seen_max": seen_max, "body_len": payload.len()}),
        Some(r) => json!({"status": r.status, "seen_max": seen_max, "body_len": payload.len()}),
    }
}

/// {"op":"body","chunks":[n..],"default":n,"override":n|null,"extractor":"untyped"|"streaming"|"typed"}
fn op_body(case: &Value) -> Value {
    let chunks: Vec<usize> = case["chunks"].as_array().unwrap().iter().map(|x| x.as_u64().unwrap() as usize).collect();
    let default = case["default"].as_u64().unwrap() as usize;
    let ovr = case["override"].as_u64().map(|x| x as usize);
    let ext = case["extractor"].as_str().unwrap_or("untyped");
    let mut e: ApiEndpoint<()> = match ext {
        "streaming" => ApiEndpoint::from(body_streaming),
        "typed" => ApiEndpoint::from(body_typed),
        _ => ApiEndpoint::from(body_untyped),
    };
    e.request_body_max_bytes = None;
    // through the builder, as application code does (possibly more than once)
    if let Some(o) = ovr { e = e.request_body_max_bytes(o); }
    if let Some(o2) = case["override_again"].as_u64() { e = e.request_body_max_bytes(o2 as usize); }
    let mut api = ApiDescription::new();
    api.register(e).unwrap();
    let total: usize = chunks.iter().sum();
    // payload: a JSON string for the typed extractor, plain bytes otherwise
    let payload: Vec<u8> = if ext == "typed" && total >= 2 {
        let mut p = vec![b'"'];
        p.extend(std::iter::repeat(b'a').take(total - 2));
        p.push(b'"');
        p
    } else {
        vec![b'x'; total]
    };
    let content_length = case["framing"].as_str() == Some("content-length");
    let mut writes: Vec<Vec<u8>> = vec![if content_length {
        format!("PUT /{} HTTP/1.1\r\nHost: replay\r\nConnection: close\r\nContent-Type: application/json\r\nContent-Length: {}\r\n\r\n", ext, total).into_bytes()
    } else {
        match case["declared_length"].as_u64() {
            // a Content-Length header that hyper ignores in favour of the chunked framing, but leaves visible to the application
            Some(n) => format!("PUT /{} HTTP/1.1\r\nHost: replay\r\nConnection: close\r\nContent-Type: application/json\r\nContent-Length: {}\r\nTransfer-Encoding: chunked\r\n\r\n", ext, n).into_bytes(),
            None => format!("PUT /{} HTTP/1.1\r\nHost: replay\r\nConnection: close\r\nContent-Type: application/json\r\nTransfer-Encoding: chunked\r\n\r\n", ext).into_bytes(),
        }
    }];
    let mut off = 0;
    for c in &chunks {
        if *c == 0 {
            continue;
        }
        let mut w = if content_length { vec![] } else { format!("{:x}\r\n", c).into_bytes() };
        w.extend_from_slice(&payload[off..off + c]);
        if !content_length {
            w.extend_from_slice(b"\r\n");
        }
        off += c;
        writes.push(w);
    }
    if !content_length {
        writes.push(b"0\r\n\r\n".to_vec());
    }
    SEEN_MAX.store(0, Ordering::SeqCst);
    let resp = crate::live::serve_raw(api, default, vec![writes]);
    let seen_max = SEEN_MAX.load(Ordering::SeqCst);
    match resp.into_iter().next().flatten() {
        None => json!({"status": 0, "seen_max": seen_max}),
        Some(r) => {
            let seen: Value = if r.status == 200 { serde_json::from_slice(&r.body).unwrap_or(Value::Null) } else { Value::Null };
            json!({"status": r.status, "seen": seen, "seen_max": seen_max, "body": String::from_utf8_lossy(&r.body)})
        }
    }
}

// ---------------------------------------------------------------------------------- C13
/// {"op":"http_error","ctor":..,"status":n,"code":s|null,"message":s,"internal":s,"headers":[[n,v]..],"request_id":s}
fn op_http_error(case: &Value) -> Value {
    use dropshot::ClientErrorStatusCode;
    use http_body_util::BodyExt;
    let code = case["code"].as_str().map(|s| s.to_string());
    let msg = case["message"].as_str().unwrap_or("m").to_string();
    let internal = case["internal"].as_str().unwrap_or("i").to_string();
    let status = case["status"].as_u64().unwrap_or(400) as u16;
    let ctor = case["ctor"].as_str().unwrap_or("").to_string();
    let rid = case["request_id"].as_str().unwrap_or("rid").to_string();
    let headers: Vec<(String, String)> = case["headers"].as_array().cloned().unwrap_or_default().iter()
        .map(|p| (p[0].as_str().unwrap().to_string(), p[1].as_str().unwrap().to_string())).collect();
    let hows: Vec<String> = case["headers"].as_array().cloned().unwrap_or_default().iter().map(|p| p[2].as_str().unwrap_or("add").to_string()).collect();
    let clear_external = case["clear_external"].as_bool().unwrap_or(false);
    let set_code: Option<String> = case["set_code"].as_str().map(|s| s.to_string());
    let r = crate::quiet(move || {
        let cs = || ClientErrorStatusCode::from_u16(status).expect("4xx");
        let mut e = match ctor.as_str() {
            "for_client_error" => HttpError::for_client_error(code, cs(), msg),
            "for_internal_error" => HttpError::for_internal_error(internal),
            "for_unavail" => HttpError::for_unavail(code, internal),
            "for_bad_request" => HttpError::for_bad_request(code, msg),
            "for_client_error_with_status" => HttpError::for_client_error_with_status(code, cs()),
            "struct_literal" => HttpError {
                status_code: dropshot::ErrorStatusCode::from_u16(status).expect("4xx/5xx"),
                error_code: code,
                external_message: msg,
                internal_message: internal,
                headers: None,
            },
            _ => HttpError::for_not_found(code, internal),
        };
        // the fields of an error are public: a handler can set them after construction
        if clear_external { e.external_message = String::new(); }
        if let Some(c) = &set_code { e.error_code = Some(c.clone()); }
        for (i, (n, v)) in headers.iter().enumerate() {
            if hows.get(i).map(|h| h == "with").unwrap_or(false) {
                e = e.with_header(n.as_str(), v.as_str()).expect("header");
            } else {
                e.add_header(n.as_str(), v.as_str()).expect("header");
            }
        }
        e.into_response(&rid)
    });
    match r {
        Err(p) => json!({"panic": p}),
        Ok(resp) => {
            let status = resp.status().as_u16();
            let hs: Vec<Value> = resp.headers().iter().map(|(k, v)| json!([k.as_str(), v.to_str().unwrap_or("?")])).collect();
            let get = |n: &str| -> Vec<String> { resp.headers().get_all(n).iter().map(|v| v.to_str().unwrap_or("?").to_string()).collect() };
            let (xr, ct) = (get("x-request-id"), get("content-type"));
            let rt = tokio::runtime::Builder::new_current_thread().enable_all().build().unwrap();
            let bytes = rt.block_on(async move { resp.into_body().collect().await.map(|c| c.to_bytes().to_vec()).unwrap_or_default() });
            let raw = String::from_utf8_lossy(&bytes).to_string();
            let body: Value = serde_json::from_slice(&bytes).unwrap_or(Value::Null);
            json!({"status": status, "headers": hs, "x_request_id": xr, "content_type": ct, "body": body, "raw_body": raw})
        }
    }
}

/// {"op":"status_code","value":n} -> which refinement types accept it
fn op_status_code(case: &Value) -> Value {
    let v = case["value"].as_u64().unwrap() as u16;
    let e = dropshot::ErrorStatusCode::from_u16(v);
    let c = dropshot::ClientErrorStatusCode::from_u16(v);
    let as_client = e.as_ref().ok().map(|e| e.as_client_error().is_ok());
    json!({"value": v, "error": e.is_ok(), "client": c.is_ok(), "error_as_client": as_client,
           "stored": e.ok().map(|e| e.as_u16())})
}

/// {"op":"status_scan"} -> every u16 whose acceptance by the refinement types is wrong
fn op_status_scan(_case: &Value) -> Value {
    let mut bad = vec![];
    for v in 0..=u16::MAX {
        let e = dropshot::ErrorStatusCode::from_u16(v);
        let c = dropshot::ClientErrorStatusCode::from_u16(v);
        let mut ok = e.is_ok() == (400..=599).contains(&v) && c.is_ok() == (400..=499).contains(&v);
        if let Ok(e) = &e {
            ok = ok && e.as_u16() == v && e.as_client_error().is_ok() == (v <= 499);
        }
        if let Ok(s) = http::StatusCode::from_u16(v) {
            ok = ok && dropshot::ErrorStatusCode::from_status(s).is_ok() == (400..=599).contains(&v)
                && dropshot::ClientErrorStatusCode::from_status(s).is_ok() == (400..=499).contains(&v);
        }
        if !ok && bad.len() < 8 {
            bad.push(v);
        }
    }
    json!({"mismatches": bad})
}

// ---------------------------------------------------------------------------------- C14 / C15
use dropshot::EmptyScanParams;
use dropshot::PaginationParams;
use dropshot::Query;
use dropshot::ResultsPage;
use dropshot::WhichPage;
use serde::Serialize;

#[derive(Debug, Clone, PartialEq, Deserialize, Serialize, JsonSchema)]
struct Sel {
    s: String,
}
#[derive(Debug, Clone, PartialEq, Deserialize, Serialize, JsonSchema)]
struct Scan {
    #[serde(default, rename = "sortBy")]
    sort_by: Option<String>,
}

fn b64() -> base64::engine::GeneralPurpose {
    base64::engine::general_purpose::URL_SAFE
}

fn token_json_len(token: &str) -> Option<usize> {
    use base64::Engine;
    b64().decode(token.as_bytes()).ok().map(|b| b.len())
}

fn issue(s: &str) -> Result<Option<String>, HttpError> {
    let page = ResultsPage::new(vec![s.to_string()], &(), |item: &String, _: &()| Sel { s: item.clone() })?;
    Ok(page.next_page)
}

fn parse_back(token: &str) -> Result<Sel, String> {
    let q = serde_urlencoded::to_string(&[("page_token", token)]).unwrap();
    match serde_urlencoded::from_str::<PaginationParams<Scan, Sel>>(&q) {
        Ok(p) => match p.page {
            WhichPage::Next(sel) => Ok(sel),
            WhichPage::First(_) => Err("parsed as first page".to_string()),
        },
        Err(e) => Err(e.to_string()),
    }
}

fn base_json_len() -> usize {
    token_json_len(&issue("").unwrap().unwrap()).unwrap()
}

#[derive(Debug, Clone, PartialEq, Deserialize, Serialize, JsonSchema)]
struct WideSel { u: u128, i: i128 }

/// {"op":"wide_token"}: selectors holding 128-bit integers around and beyond the 64-bit range, issued and fed back
fn op_wide_token(_case: &Value) -> Value {
    let vals: Vec<(u128, i128)> = vec![(0, 0), (u64::MAX as u128, i64::MIN as i128), (u64::MAX as u128 + 1, i64::MIN as i128 - 1), (u128::MAX, i128::MIN), (1u128 << 100, i128::MAX)];
    let mut failing = vec![];
    for (u, i) in vals {
        let sel = WideSel { u, i };
        let page = match ResultsPage::new(vec![sel.clone()], &(), |item: &WideSel, _: &()| item.clone()) { Ok(p) => p, Err(e) => { failing.push(json!({"u": u.to_string(), "issue_error": e.status_code.as_u16()})); continue } };
        let token = page.next_page.unwrap();
        let q = serde_urlencoded::to_string(&[("page_token", token.as_str())]).unwrap();
        match serde_urlencoded::from_str::<PaginationParams<Scan, WideSel>>(&q) {
            Ok(p) => match p.page { WhichPage::Next(back) if back == sel => {}, other => failing.push(json!({"u": u.to_string(), "i": i.to_string(), "back": format!("{:?}", other)})) },
            Err(e) => failing.push(json!({"u": u.to_string(), "i": i.to_string(), "error": e.to_string()})),
        }
    }
    json!({"roundtrip_all": failing.is_empty(), "failing": failing})
}

/// {"op":"page_token","json_len":n} : issue tokens for a family of selectors whose token JSON has n bytes, feed each back
fn op_page_token(case: &Value) -> Value {
    let n = case["json_len"].as_u64().unwrap() as usize;
    let base = base_json_len();
    let l = n.saturating_sub(base);
    let mut family = vec!["a".repeat(l)];
    for (i, ch) in [(0usize, '>'), (1, '?'), (2, '~'), (l / 2, '>'), (l.saturating_sub(1), '?'), (l.saturating_sub(2), '~')] {
        if i < l {
            let mut v: Vec<char> = "a".repeat(l).chars().collect();
            v[i] = ch;
            family.push(v.into_iter().collect());
        }
    }
    for k in 0..3usize {
        if l >= 3 {
            let mut v: Vec<char> = "a".repeat(l).chars().collect();
            for j in (k..l).step_by(3) { v[j] = ['>', '?', '~'][j % 3]; }
            family.push(v.into_iter().collect());
        }
    }
    let (mut issued, mut roundtrip_all, mut token_len, mut issue_status, mut failing) = (true, true, 0usize, 0u16, Value::Null);
    for s in &family {
        match issue(s) {
            Ok(Some(t)) => {
                token_len = token_len.max(t.len());
                match parse_back(&t) {
                    Ok(sel) if sel.s == *s => {}
                    other => {
                        roundtrip_all = false;
                        failing = json!({"selector": s, "token": t, "back": format!("{:?}", other)});
                    }
                }
            }
            Ok(None) => { issued = false; }
            Err(e) => { issued = false; issue_status = e.status_code.as_u16(); }
        }
    }
    json!({"issued": issued, "roundtrip_all": roundtrip_all, "token_len": token_len, "issue_status": issue_status,
           "family": family.len(), "selector_len": l, "failing": failing})
}

#[endpoint { method = GET, path = "/items" }]
async fn paged_items(
    rqctx: RequestContext<()>,
    query: Query<PaginationParams<Scan, Sel>>,
) -> Result<HttpResponseOk<serde_json::Value>, HttpError> {
    let p = query.into_inner();
    let limit = rqctx.page_limit(&p)?.get();
    let which = match &p.page {
        WhichPage::First(scan) => json!({"first": {"sortBy": scan.sort_by}}),
        WhichPage::Next(sel) => json!({"next": {"s": sel.s}}),
    };
    Ok(HttpResponseOk(json!({"limit": limit, "which": which})))
}

fn get_items(query: &str) -> Option<crate::live::RawResponse> {
    let mut api = ApiDescription::new();
    api.register(paged_items).unwrap();
    let rq = format!("GET /items{} HTTP/1.1\r\nHost: replay\r\nConnection: close\r\n\r\n", query).into_bytes();
    crate::live::serve_raw(api, 1024, vec![vec![rq]]).into_iter().next().flatten()
}

fn build_token(len: usize, decodes: bool, parses: bool) -> Result<String, String> {
    use base64::Engine;
    if !decodes {
        return Ok("!".repeat(len));
    }
    if len % 4 != 0 {
        return Err(format!("no padded base64 text has length {}", len));
    }
    let n_max = len / 4 * 3;
    if !parses {
        for n in (n_max.saturating_sub(2)..=n_max).rev() {
            let t = b64().encode("{".repeat(n.max(1)));
            if t.len() == len { return Ok(t); }
        }
        return Err("cannot build".to_string());
    }
    let base = base_json_len();
    for n in (n_max.saturating_sub(2)..=n_max).rev() {
        if n < base { continue; }
        let js = serde_json::to_vec(&json!({"v": "v1", "page_start": {"s": "a".repeat(n - base)}})).unwrap();
        let t = b64().encode(&js);
        if t.len() == len { return Ok(t); }
    }
    Err(format!("no valid token has length {}", len))
}

/// {"op":"token_in","len":n,"decodes":b,"parses":b} -> {"status": n}
fn op_token_in(case: &Value) -> Value {
    let t = match case["token_text"].as_str() {
        Some(t) => t.to_string(),
        None => match build_token(case["len"].as_u64().unwrap() as usize, case["decodes"].as_bool().unwrap(), case["parses"].as_bool().unwrap()) {
            Ok(t) => t,
            Err(e) => return json!({"unbuildable": e}),
        },
    };
    let q = format!("?{}", serde_urlencoded::to_string(&[("page_token", t.as_str())]).unwrap());
    match get_items(&q) {
        None => json!({"status": 0}),
        Some(r) => json!({"status": r.status, "body": String::from_utf8_lossy(&r.body)}),
    }
}

/// {"op":"whichpage","shape":"token"|"token+other"|"other"|"empty","len":n}
fn op_whichpage(case: &Value) -> Value {
    let shape = case["shape"].as_str().unwrap();
    let token = match case["token_text"].as_str() {
        Some(t) => t.to_string(),
        None => issue("sel-value").unwrap().unwrap(),
    };
    let mut parts: Vec<(&str, &str)> = vec![];
    // parameters the scan type does not declare, sorting before the one it does
    if shape.contains("extra") { parts.push(("aaa", "1")); parts.push(("debug", "true")); }
    if shape.contains("other") { parts.push(("sortBy", "name-descending")); }
    if shape.contains("token") { parts.push(("page_token", token.as_str())); }
    let q = if parts.is_empty() { String::new() } else { format!("?{}", serde_urlencoded::to_string(&parts).unwrap()) };
    let Some(r) = get_items(&q) else { return json!({"as_specified": false, "status": 0}) };
    let body: Value = serde_json::from_slice(&r.body).unwrap_or(Value::Null);
    let ok = if shape.contains("token") {
        r.status == 200 && body["which"]["next"]["s"] == "sel-value"
    } else if shape.contains("other") {
        r.status == 200 && body["which"]["first"]["sortBy"] == "name-descending"
    } else {
        r.status == 200 && body["which"]["first"]["sortBy"].is_null() && !body["which"]["first"].is_null()
    };
    json!({"as_specified": ok, "status": r.status, "body": body})
}

/// {"op":"results_page","items":k,"json_len":n}
fn op_results_page(case: &Value) -> Value {
    let k = case["items"].as_u64().unwrap() as usize;
    let n = case["json_len"].as_u64().unwrap() as usize;
    let l = n.saturating_sub(base_json_len());
    let items: Vec<String> = (0..k).map(|i| format!("{}{}", i, "a".repeat(l.saturating_sub(1)))).collect();
    let fits = 4 * ((base_json_len() + items.last().map(|s| s.len()).unwrap_or(0) + 2) / 3) <= 512;
    match ResultsPage::new(items.clone(), &(), |item: &String, _: &()| Sel { s: item.clone() }) {
        Err(e) => json!({"as_specified": k > 0 && !fits && e.status_code.as_u16() >= 500, "error": e.status_code.as_u16()}),
        Ok(page) => {
            let ok = match (&page.next_page, items.last()) {
                (None, None) => true,
                (Some(t), Some(last)) => fits && parse_back(t).map(|s| s.s == *last).unwrap_or(false),
                _ => false,
            };
            json!({"as_specified": ok && page.items == items, "next_page": page.next_page})
        }
    }
}

/// {"op":"page_limit","limit":n|null} -> {"items": effective limit}  (server max / default are the built-in constants)
fn op_page_limit(case: &Value) -> Value {
    let q = match case["limit"].as_u64() { Some(l) => format!("?limit={}", l), None => String::new() };
    let Some(r) = get_items(&q) else { return json!({"status": 0}) };
    let body: Value = serde_json::from_slice(&r.body).unwrap_or(Value::Null);
    json!({"status": r.status, "items": body["limit"]})
}

fn op_page_limit_bad(case: &Value) -> Value {
    let q = format!("?limit={}", case["text"].as_str().unwrap());
    let Some(r) = get_items(&q) else { return json!({"status": 0}) };
    json!({"status": r.status})
}

// ---------------------------------------------------------------------------------- C15
#[derive(Debug, Clone, PartialEq, Deserialize, Serialize, JsonSchema)]
struct NumSel {
    last: u64,
    desc: bool,
}
#[derive(Debug, Clone, PartialEq, Deserialize, Serialize, JsonSchema)]
struct NumScan {
    #[serde(default, rename = "sortDesc")]
    desc: bool,
}

#[endpoint { method = GET, path = "/nums" }]
async fn paged_nums(
    rqctx: RequestContext<u64>,
    query: Query<PaginationParams<NumScan, NumSel>>,
) -> Result<HttpResponseOk<ResultsPage<u64>>, HttpError> {
    let n = *rqctx.context();
    let p = query.into_inner();
    let limit = rqctx.page_limit(&p)?.get() as usize;
    let (desc, after): (bool, Option<u64>) = match &p.page {
        WhichPage::First(s) => (s.desc, None),
        WhichPage::Next(sel) => (sel.desc, Some(sel.last)),
    };
    // the collection is 1..=n
    let items: Vec<u64> = if desc {
        let start = after.map(|a| a.saturating_sub(1)).unwrap_or(n);
        (1..=start).rev().take(limit).collect()
    } else {
        let start = after.map(|a| a + 1).unwrap_or(1);
        (start..=n).take(limit).collect()
    };
    Ok(HttpResponseOk(ResultsPage::new(items, &NumScan { desc }, |i: &u64, s: &NumScan| NumSel { last: *i, desc: s.desc })?))
}

/// {"op":"scan","n":n,"limit":l|null,"desc":b}: follow next-page tokens on a live server until none is returned
fn op_scan(case: &Value) -> Value {
    use std::io::{Read, Write};
    let n = case["n"].as_u64().unwrap();
    let limit = case["limit"].as_u64();
    let desc = case["desc"].as_bool().unwrap_or(false);
    let eff = limit.map(|l| l.min(10000)).unwrap_or(100) as usize;
    let rt = tokio::runtime::Builder::new_multi_thread().worker_threads(2).enable_all().build().unwrap();
    rt.block_on(async move {
        let mut api = ApiDescription::new();
        api.register(paged_nums).unwrap();
        let log = slog::Logger::root(slog::Discard, slog::o!());
        let server = dropshot::ServerBuilder::new(api, n, log).start().expect("server");
        let addr = server.local_addr();
        let out = tokio::task::spawn_blocking(move || {
            let mut seen: Vec<u64> = vec![];
            let mut token: Option<String> = None;
            let (mut pages, mut max_page, mut token_on_empty, mut missing_token) = (0usize, 0usize, false, false);
            loop {
                let mut parts: Vec<(String, String)> = vec![];
                match &token {
                    Some(t) => parts.push(("page_token".into(), t.clone())),
                    None => {
                        if desc {
                            // the first page names the scan mode among parameters the scan type does not declare
                            parts.push(("aaa".into(), "1".into()));
                            parts.push(("debug".into(), "true".into()));
                            parts.push(("sortDesc".into(), "true".into()));
                        }
                    }
                }
                if let Some(l) = limit { parts.push(("limit".into(), l.to_string())); }
                let q = if parts.is_empty() { String::new() } else { format!("?{}", serde_urlencoded::to_string(&parts).unwrap()) };
                let mut s = std::net::TcpStream::connect(addr).unwrap();
                s.write_all(format!("GET /nums{} HTTP/1.1\r\nHost: r\r\nConnection: close\r\n\r\n", q).as_bytes()).unwrap();
                let mut buf = vec![];
                s.read_to_end(&mut buf).unwrap();
                let Some(resp) = crate::live::parse_response(&buf) else { return json!({"as_specified": false, "why": "no response"}) };
                if resp.status != 200 { return json!({"as_specified": false, "why": format!("status {}", resp.status)}); }
                let body: Value = serde_json::from_slice(&resp.body).unwrap_or(Value::Null);
                let items: Vec<u64> = body["items"].as_array().unwrap().iter().map(|x| x.as_u64().unwrap()).collect();
                pages += 1;
                max_page = max_page.max(items.len());
                let next = body["next_page"].as_str().map(|s| s.to_string());
                if items.is_empty() && next.is_some() { token_on_empty = true; }
                if !items.is_empty() && next.is_none() { missing_token = true; }
                seen.extend(items);
                match next { Some(t) if pages < 100000 => token = Some(t), _ => break }
            }
            let want: Vec<u64> = if desc { (1..=n).rev().collect() } else { (1..=n).collect() };
            let ok = seen == want && max_page <= eff && !token_on_empty && !missing_token;
            json!({"as_specified": ok, "pages": pages, "items_seen": seen.len(), "max_page": max_page, "effective_limit": eff,
                   "token_on_empty_page": token_on_empty, "non_empty_page_without_token": missing_token})
        }).await.unwrap();
        let _ = server.close().await;
        out
    })
}

#[derive(Debug, Clone, PartialEq, Deserialize, Serialize, JsonSchema)]
struct NameSel { name: String }
#[derive(Debug, Clone, PartialEq, Deserialize, Serialize, JsonSchema)]
struct NoScan {}

#[endpoint { method = GET, path = "/names" }]
async fn paged_names(
    rqctx: RequestContext<Vec<String>>,
    query: Query<PaginationParams<NoScan, NameSel>>,
) -> Result<HttpResponseOk<ResultsPage<String>>, HttpError> {
    let all = rqctx.context();
    let p = query.into_inner();
    let limit = rqctx.page_limit(&p)?.get() as usize;
    let start = match &p.page {
        WhichPage::First(_) => 0,
        WhichPage::Next(sel) => all.iter().position(|n| *n == sel.name).map(|i| i + 1).unwrap_or(all.len()),
    };
    let items: Vec<String> = all[start..].iter().take(limit).cloned().collect();
    Ok(HttpResponseOk(ResultsPage::new(items, &NoScan {}, |i: &String, _: &NoScan| NameSel { name: i.clone() })?))
}

/// {"op":"token_transport","names":[..],"limit":l}: follow next-page tokens by pasting each token into the query string exactly as
/// it was returned (as dropshot's own tests, examples and documentation do)
fn op_token_transport(case: &Value) -> Value {
    use std::io::{Read, Write};
    let names: Vec<String> = case["names"].as_array().unwrap().iter().map(|x| x.as_str().unwrap().to_string()).collect();
    let limit = case["limit"].as_u64().unwrap_or(1);
    let rt = tokio::runtime::Builder::new_multi_thread().worker_threads(2).enable_all().build().unwrap();
    rt.block_on(async move {
        let mut api = ApiDescription::new();
        api.register(paged_names).unwrap();
        let log = slog::Logger::root(slog::Discard, slog::o!());
        let server = dropshot::ServerBuilder::new(api, names.clone(), log).start().expect("server");
        let addr = server.local_addr();
        let out = tokio::task::spawn_blocking(move || {
            let mut seen: Vec<String> = vec![];
            let mut token: Option<String> = None;
            let mut tokens: Vec<String> = vec![];
            for _ in 0..(names.len() + 2) {
                let q = match &token { Some(t) => format!("?page_token={}&limit={}", t, limit), None => format!("?limit={}", limit) };
                let mut s = std::net::TcpStream::connect(addr).unwrap();
                s.write_all(format!("GET /names{} HTTP/1.1\r\nHost: r\r\nConnection: close\r\n\r\n", q).as_bytes()).unwrap();
                let mut buf = vec![];
                s.read_to_end(&mut buf).unwrap();
                let Some(resp) = crate::live::parse_response(&buf) else { return json!({"as_specified": false, "why": "no response", "tokens": tokens}) };
                if resp.status != 200 {
                    return json!({"as_specified": false, "why": format!("status {} following token {:?}: {}", resp.status, token, String::from_utf8_lossy(&resp.body)), "seen": seen, "tokens": tokens});
                }
                let body: Value = serde_json::from_slice(&resp.body).unwrap_or(Value::Null);
                seen.extend(body["items"].as_array().unwrap().iter().map(|x| x.as_str().unwrap().to_string()));
                match body["next_page"].as_str() { Some(t) => { tokens.push(t.to_string()); token = Some(t.to_string()) } None => break }
            }
            json!({"as_specified": seen == names, "seen": seen, "tokens": tokens})
        }).await.unwrap();
        let _ = server.close().await;
        out
    })
}

// ---------------------------------------------------------------------------------- C12
#[derive(Debug, Clone, PartialEq, Deserialize, Serialize, JsonSchema)]
struct Payload {
    name: String,
    small: u8,
    big: u64,
    huge: u128,
    neg: i128,
    f: f64,
    opt: Option<String>,
    list: Vec<i32>,
    map: std::collections::BTreeMap<String, bool>,
}

fn payloads() -> Vec<Payload> {
    let base = Payload { name: "plain".into(), small: 1, big: 2, huge: 3, neg: -4, f: 1.5, opt: None, list: vec![], map: Default::default() };
    vec![
        base.clone(),
        Payload { name: "uni \u{1F600} \"quoted\" \\ \n".into(), opt: Some("é".into()), list: vec![i32::MIN, 0, i32::MAX], ..base.clone() },
        Payload { big: u64::MAX, huge: u64::MAX as u128, neg: i64::MIN as i128, ..base.clone() },
        Payload { huge: u64::MAX as u128 + 1, ..base.clone() },
        Payload { huge: u128::MAX, neg: i128::MIN, small: u8::MAX, ..base.clone() },
        Payload { f: -0.0, map: [("k".to_string(), true)].into_iter().collect(), ..base.clone() },
        // bodies of 64 KiB, 256 KiB and 1 MiB and beyond (whatever framing the body type uses internally)
        Payload { name: "big-64k".into(), list: (0..9_000).collect(), ..base.clone() },
        Payload { name: "big-256k".into(), list: (0..45_000).collect(), ..base.clone() },
        Payload { name: "big-2m".into(), list: (0..300_000).collect(), ..base.clone() },
    ]
}

fn collect_body(resp: hyper::Response<dropshot::Body>) -> (u16, Vec<(String, String)>, Vec<u8>) {
    use http_body_util::BodyExt;
    let status = resp.status().as_u16();
    let hs = resp.headers().iter().map(|(k, v)| (k.as_str().to_string(), String::from_utf8_lossy(v.as_bytes()).into_owned())).collect();
    let rt = tokio::runtime::Builder::new_current_thread().enable_all().build().unwrap();
    let bytes = rt.block_on(async move { resp.into_body().collect().await.map(|c| c.to_bytes().to_vec()).unwrap_or_default() });
    (status, hs, bytes)
}

/// {"op":"response","kind":K[, "location":s]}
fn op_response(case: &Value) -> Value {
    use dropshot::HttpResponse;
    let kind = case["kind"].as_str().unwrap();
    let mut detail = vec![];
    let mut ok = true;
    match kind {
        "HttpResponseCreated" | "HttpResponseAccepted" | "HttpResponseOk" => {
            for p in payloads() {
                let (r, want) = match kind {
                    "HttpResponseCreated" => (dropshot::HttpResponseCreated(p.clone()).to_result(), 201),
                    "HttpResponseAccepted" => (dropshot::HttpResponseAccepted(p.clone()).to_result(), 202),
                    _ => (dropshot::HttpResponseOk(p.clone()).to_result(), 200),
                };
                match r {
                    Err(e) => { ok = false; detail.push(json!({"payload": p.name, "huge": p.huge.to_string(), "error": e.status_code.as_u16(), "internal": e.internal_message})); }
                    Ok(resp) => {
                        let (status, hs, body) = collect_body(resp);
                        let back: Option<Payload> = serde_json::from_slice(&body).ok();
                        let ct: Vec<&String> = hs.iter().filter(|(k, _)| k == "content-type").map(|(_, v)| v).collect();
                        let good = status == want && ct == vec!["application/json"] && back.as_ref() == Some(&p);
                        if !good { ok = false; detail.push(json!({"payload": p.name, "status": status, "headers": hs.len(), "roundtrip": back == Some(p.clone())})); }
                    }
                }
            }
        }
        "HttpResponseDeleted" | "HttpResponseUpdatedNoContent" => {
            let r = if kind == "HttpResponseDeleted" { dropshot::HttpResponseDeleted().to_result() } else { dropshot::HttpResponseUpdatedNoContent().to_result() };
            match r {
                Err(e) => { ok = false; detail.push(json!({"error": e.status_code.as_u16()})); }
                Ok(resp) => { let (status, hs, body) = collect_body(resp); ok = status == 204 && body.is_empty(); detail.push(json!({"status": status, "headers": hs, "body_len": body.len()})); }
            }
        }
        _ => {
            let loc = case["location"].as_str().unwrap_or("/some/where?x=1").to_string();
            let legal = http::HeaderValue::from_str(&loc).is_ok();
            let l2 = loc.clone();
            let k2 = kind.to_string();
            let attempt = crate::quiet(move || match k2.as_str() {
                "http_response_found" => (dropshot::http_response_found(l2.clone()).and_then(|x| x.to_result()), 302),
                "http_response_see_other" => (dropshot::http_response_see_other(l2.clone()).and_then(|x| x.to_result()), 303),
                _ => (dropshot::http_response_temporary_redirect(l2.clone()).and_then(|x| x.to_result()), 307),
            });
            let (r, want) = match attempt {
                Ok(x) => x,
                Err(p) => return json!({"as_specified": false, "panic": p, "legal": legal}),
            };
            match r {
                Err(e) => { ok = !legal && e.status_code.as_u16() >= 500; detail.push(json!({"error": e.status_code.as_u16(), "legal": legal})); }
                Ok(resp) => {
                    let (status, hs, body) = collect_body(resp);
                    let locs: Vec<&String> = hs.iter().filter(|(k, _)| k == "location").map(|(_, v)| v).collect();
                    ok = legal && status == want && body.is_empty() && locs == vec![&loc];
                    detail.push(json!({"status": status, "headers": hs}));
                }
            }
        }
    }
    json!({"as_specified": ok, "detail": detail})
}

#[derive(Serialize, JsonSchema)]
struct Declared0 {}
#[derive(Serialize, JsonSchema)]
struct Declared1 { #[serde(rename = "x-a")] a: String }
#[derive(Serialize, JsonSchema)]
struct Declared2 { #[serde(rename = "x-a")] a: String, #[serde(rename = "x-b")] b: String }
#[derive(Serialize, JsonSchema)]
struct DeclaredUpper { #[serde(rename = "X-Upper")] a: String }

/// a zero-sized marker type that serialises to a constant string, and a (therefore zero-sized) header struct made of it
struct Nosniff;
impl Serialize for Nosniff {
    fn serialize<S: serde::Serializer>(&self, s: S) -> Result<S::Ok, S::Error> { s.serialize_str("nosniff") }
}
impl JsonSchema for Nosniff {
    fn schema_name() -> String { "Nosniff".to_string() }
    fn json_schema(g: &mut schemars::gen::SchemaGenerator) -> schemars::schema::Schema { String::json_schema(g) }
}
#[derive(Serialize, JsonSchema)]
struct DeclaredZst { #[serde(rename = "x-zst")] z: Nosniff }

/// {"op":"response_headers","declared":[names],"explicit":[names]}
fn op_response_headers(case: &Value) -> Value {
    use dropshot::HttpResponse;
    let declared: Vec<String> = case["declared"].as_array().unwrap().iter().map(|x| x.as_str().unwrap().to_string()).collect();
    let explicit: Vec<String> = case["explicit"].as_array().unwrap().iter().map(|x| x.as_str().unwrap().to_string()).collect();
    let add = |hm: &mut http::HeaderMap| {
        for (i, n) in explicit.iter().enumerate() {
            hm.append(http::HeaderName::from_bytes(n.as_bytes()).unwrap(), http::HeaderValue::from_str(&format!("explicit-{}", i)).unwrap());
        }
    };
    let body = dropshot::HttpResponseOk(7u32);
    // the values of the declared headers: "declared-<i>" unless given
    let dval = |i: usize| -> String { case["declared_values"][i].as_str().map(|s| s.to_string()).unwrap_or_else(|| format!("declared-{}", i)) };
    if case["zero_sized"].as_bool().unwrap_or(false) {
        let mut h = dropshot::HttpResponseHeaders::new(body, DeclaredZst { z: Nosniff });
        add(h.headers_mut());
        return match h.to_result() {
            Err(e) => json!({"as_specified": false, "error": e.status_code.as_u16()}),
            Ok(resp) => {
                let (status, hs, _) = collect_body(resp);
                let ok = status == 200 && hs.iter().any(|(k, v)| k == "x-zst" && v == "nosniff");
                json!({"as_specified": ok, "status": status, "headers": hs})
            }
        };
    }
    if declared.len() == 1 && declared[0] == "X-Upper" {
        // a serde name in mixed case: header names are case-insensitive and travel in lower case
        let mut h = dropshot::HttpResponseHeaders::new(body, DeclaredUpper { a: dval(0) });
        add(h.headers_mut());
        return match h.to_result() {
            Err(e) => json!({"as_specified": false, "error": e.status_code.as_u16()}),
            Ok(resp) => {
                let (status, hs, _) = collect_body(resp);
                let ok = status == 200 && hs.iter().any(|(k, v)| k == "x-upper" && *v == dval(0));
                json!({"as_specified": ok, "status": status, "headers": hs})
            }
        };
    }
    let r = match declared.len() {
        0 => { let mut h = dropshot::HttpResponseHeaders::new(body, Declared0 {}); add(h.headers_mut()); h.to_result() }
        1 => { let mut h = dropshot::HttpResponseHeaders::new(body, Declared1 { a: dval(0) }); add(h.headers_mut()); h.to_result() }
        _ => { let mut h = dropshot::HttpResponseHeaders::new(body, Declared2 { a: dval(0), b: dval(1) }); add(h.headers_mut()); h.to_result() }
    };
    match r {
        Err(e) => json!({"as_specified": false, "error": e.status_code.as_u16()}),
        Ok(resp) => {
            let (status, hs, _) = collect_body(resp);
            let mut want: Vec<(String, String)> = vec![];
            for (i, n) in declared.iter().enumerate() {
                if !explicit.contains(n) { want.push((n.clone(), dval(i))); }
            }
            for (i, n) in explicit.iter().enumerate() { want.push((n.clone(), format!("explicit-{}", i))); }
            let mut got: Vec<(String, String)> = hs.iter().filter(|(k, _)| k != "content-type").cloned().collect();
            let per_name_order = explicit.iter().all(|n| {
                let g: Vec<&String> = got.iter().filter(|(k, _)| k == n).map(|(_, v)| v).collect();
                let w: Vec<&String> = want.iter().filter(|(k, _)| k == n).map(|(_, v)| v).collect();
                g == w
            });
            got.sort(); want.sort();
            json!({"as_specified": status == 200 && got == want && per_name_order, "status": status, "headers": hs})
        }
    }
}

// ---------------------------------------------------------------------------------- C20
#[dropshot::channel { protocol = WEBSOCKETS, path = "/ws" }]
async fn ws_channel(
    _rqctx: RequestContext<()>,
    upgraded: dropshot::WebsocketConnection,
) -> dropshot::WebsocketChannelResult {
    // echo raw bytes until the peer closes
    use tokio::io::{AsyncReadExt, AsyncWriteExt};
    let mut raw = upgraded.into_inner();
    let mut buf = [0u8; 1024];
    loop {
        match raw.read(&mut buf).await {
            Ok(0) | Err(_) => break,
            Ok(n) => { if raw.write_all(&buf[..n]).await.is_err() { break; } }
        }
    }
    Ok(())
}

#[dropshot::channel { protocol = WEBSOCKETS, path = "/ws-exact" }]
async fn ws_exact_channel(
    _rqctx: RequestContext<()>,
    upgraded: dropshot::WebsocketConnection,
) -> dropshot::WebsocketChannelResult {
    // reads a 12-byte message with read_exact (partially filled buffers between polls), answers with a vectored write of three slices
    use tokio::io::{AsyncReadExt, AsyncWriteExt};
    let mut raw = upgraded.into_inner();
    let mut msg = [0u8; 12];
    raw.read_exact(&mut msg).await?;
    let (a, rest) = msg.split_at(3);
    let (b, c) = rest.split_at(5);
    let mut slices = [std::io::IoSlice::new(a), std::io::IoSlice::new(b), std::io::IoSlice::new(c)];
    let mut bufs: &mut [std::io::IoSlice<'_>] = &mut slices;
    while !bufs.is_empty() {
        let n = raw.write_vectored(bufs).await?;
        if n == 0 { break; }
        std::io::IoSlice::advance_slices(&mut bufs, n);
    }
    raw.flush().await?;
    raw.shutdown().await?;
    Ok(())
}

async fn exact_echo(upgraded: dropshot::WebsocketConnection) -> dropshot::WebsocketChannelResult {
    use tokio::io::{AsyncReadExt, AsyncWriteExt};
    let mut raw = upgraded.into_inner();
    let mut msg = [0u8; 12];
    raw.read_exact(&mut msg).await?;
    raw.write_all(&msg).await?;
    raw.flush().await?;
    raw.shutdown().await?;
    Ok(())
}

/// a channel that is served but not published in the document
#[dropshot::channel { protocol = WEBSOCKETS, path = "/zz-ws-hidden", unpublished = true }]
async fn zz_ws_hidden(_rqctx: RequestContext<()>, upgraded: dropshot::WebsocketConnection) -> dropshot::WebsocketChannelResult {
    exact_echo(upgraded).await
}

/// a channel that is published and marked deprecated
#[dropshot::channel { protocol = WEBSOCKETS, path = "/zz-ws-old", deprecated = true }]
async fn zz_ws_old(_rqctx: RequestContext<()>, upgraded: dropshot::WebsocketConnection) -> dropshot::WebsocketChannelResult {
    exact_echo(upgraded).await
}

/// {"op":"ws_stream","segments":[3,5,4]}: after a valid handshake, 12 bytes are sent in the given TCP segments; the handler must echo them
fn op_ws_stream(case: &Value) -> Value {
    use std::io::{Read, Write};
    let segs: Vec<usize> = case["segments"].as_array().unwrap().iter().map(|x| x.as_u64().unwrap() as usize).collect();
    let msg: Vec<u8> = (0..12u8).map(|i| b'a' + i).collect();
    let rt = tokio::runtime::Builder::new_multi_thread().worker_threads(2).enable_all().build().unwrap();
    rt.block_on(async move {
        let mut api = ApiDescription::new();
        // "hidden": the only channel of the API is an unpublished one
        let hidden = case["hidden"].as_bool().unwrap_or(false);
        if hidden { api.register(zz_ws_hidden).unwrap(); } else { api.register(ws_exact_channel).unwrap(); }
        let target = if hidden { "/zz-ws-hidden" } else { "/ws-exact" };
        let log = slog::Logger::root(slog::Discard, slog::o!());
        let server = dropshot::ServerBuilder::new(api, (), log).start().expect("server");
        let addr = server.local_addr();
        let out = tokio::task::spawn_blocking(move || {
            let mut s = std::net::TcpStream::connect(addr).unwrap();
            s.set_nodelay(true).unwrap();
            s.set_read_timeout(Some(std::time::Duration::from_secs(5))).unwrap();
            s.write_all(format!("GET {} HTTP/1.1\r\nHost: replay\r\nConnection: Upgrade\r\nUpgrade: websocket\r\nSec-WebSocket-Version: 13\r\nSec-WebSocket-Key: dGhlIHNhbXBsZSBub25jZQ==\r\n\r\n", target).as_bytes()).unwrap();
            let mut head = vec![];
            let mut one = [0u8; 1];
            while !head.ends_with(b"\r\n\r\n") {
                match s.read(&mut one) { Ok(1) => head.push(one[0]), _ => break }
            }
            if !head.starts_with(b"HTTP/1.1 101") { return json!({"as_specified": false, "why": "no 101", "head": String::from_utf8_lossy(&head)}); }
            let mut off = 0;
            for n in &segs {
                let end = (off + n).min(msg.len());
                // the peer may already have given up (that is a finding, not a crash of the replay)
                if s.write_all(&msg[off..end]).is_err() { break; }
                let _ = s.flush();
                off = end;
                std::thread::sleep(std::time::Duration::from_millis(40));
            }
            if off < msg.len() { let _ = s.write_all(&msg[off..]); }
            let mut back = vec![];
            let mut tmp = [0u8; 64];
            loop {
                match s.read(&mut tmp) { Ok(0) | Err(_) => break, Ok(n) => { back.extend_from_slice(&tmp[..n]); if back.len() >= msg.len() { break; } } }
            }
            json!({"as_specified": back == msg, "echoed": String::from_utf8_lossy(&back), "sent": String::from_utf8_lossy(&msg)})
        }).await.unwrap();
        let _ = tokio::time::timeout(std::time::Duration::from_millis(500), server.close()).await;
        out
    })
}

/// {"op":"ws_handshake","headers":{"connection":s|null|"non-ascii","upgrade":..,"version":s|null,"key":s|null}}
fn op_ws_handshake(case: &Value) -> Value {
    use base64::Engine;
    use sha1::Digest;
    let h = &case["headers"];
    let mut rq = b"GET /ws HTTP/1.1\r\nHost: replay\r\n".to_vec();
    let mut add = |name: &str, v: &Value| {
        if let Some(s) = v.as_str() {
            rq.extend_from_slice(name.as_bytes());
            rq.extend_from_slice(b": ");
            if s == "non-ascii" { rq.extend_from_slice(&[0xf0, 0x9f, 0x98, 0x80]); } else { rq.extend_from_slice(s.as_bytes()); }
            rq.extend_from_slice(b"\r\n");
        }
    };
    add("Connection", &h["connection"]);
    add("Upgrade", &h["upgrade"]);
    add("Sec-WebSocket-Version", &h["version"]);
    // the key either as text or as raw octets (any octets that are legal in a header value)
    let key_bytes: Option<Vec<u8>> = match &h["key_bytes"] {
        Value::Array(a) => Some(a.iter().map(|x| x.as_u64().unwrap() as u8).collect()),
        _ => h["key"].as_str().map(|k| k.as_bytes().to_vec()),
    };
    if let Some(k) = &key_bytes {
        rq.extend_from_slice(b"Sec-WebSocket-Key: ");
        rq.extend_from_slice(k);
        rq.extend_from_slice(b"\r\n");
    }
    if let Value::Array(extra) = &h["extra"] {
        for e in extra {
            rq.extend_from_slice(format!("{}: {}\r\n", e[0].as_str().unwrap_or("x-none"), e[1].as_str().unwrap_or("")).as_bytes());
        }
    }
    rq.extend_from_slice(b"\r\n");
    let mut api = ApiDescription::new();
    api.register(ws_channel).unwrap();
    let resp = crate::live::serve_raw(api, 1024, vec![vec![rq]]);
    match resp.into_iter().next().flatten() {
        None => json!({"status": 0}),
        Some(r) => {
            let want = key_bytes.as_ref().map(|k| {
                let mut s = sha1::Sha1::default();
                s.update(k);
                s.update(b"258EAFA5-E914-47DA-95CA-C5AB0DC85B11");
                base64::engine::general_purpose::STANDARD.encode(s.finalize())
            });
            let acc = r.header_all("sec-websocket-accept");
            let conn: Vec<String> = r.header_all("connection").iter().map(|s| s.to_ascii_lowercase()).collect();
            let upg: Vec<String> = r.header_all("upgrade").iter().map(|s| s.to_ascii_lowercase()).collect();
            let accept_ok = r.status == 101 && want.is_some() && acc == vec![want.clone().unwrap()] && conn == vec!["upgrade"] && upg == vec!["websocket"];
            json!({"status": r.status, "accept": acc, "expected_accept": want, "accept_ok": accept_ok})
        }
    }
}

// ---------------------------------------------------------------------------------- C10 / C09
static ENTERED: AtomicUsize = AtomicUsize::new(0);

#[derive(Deserialize, Serialize, JsonSchema, Debug, Clone, PartialEq)]
struct TPath { a: u8, b: i8, c: u32 }
#[derive(Deserialize, Serialize, JsonSchema, Debug, Clone, PartialEq)]
enum Color { Red, Green }
#[derive(Deserialize, Serialize, JsonSchema, Debug, Clone, PartialEq)]
struct TQuery { n: u16, color: Option<Color>, flag: Option<bool>, #[serde(default)] s: String }
#[derive(Deserialize, Serialize, JsonSchema, Debug, Clone, PartialEq)]
struct TBody { to: String, amount: u32, opt: Option<i64> }

#[endpoint { method = GET, path = "/p/{a}/{b}/{c}" }]
async fn t_path(_r: RequestContext<()>, p: Path<TPath>) -> Result<HttpResponseOk<TPath>, HttpError> {
    ENTERED.fetch_add(1, Ordering::SeqCst);
    Ok(HttpResponseOk(p.into_inner()))
}
#[derive(Deserialize, Serialize, JsonSchema, Debug, Clone, PartialEq)]
struct TPath2 { d: u16, e: u64, f: i16, g: i32, h: i64 }
#[endpoint { method = GET, path = "/p2/{d}/{e}/{f}/{g}/{h}" }]
async fn t_path2(_r: RequestContext<()>, p: Path<TPath2>) -> Result<HttpResponseOk<TPath2>, HttpError> {
    ENTERED.fetch_add(1, Ordering::SeqCst);
    Ok(HttpResponseOk(p.into_inner()))
}
#[endpoint { method = GET, path = "/q" }]
async fn t_query(_r: RequestContext<()>, q: Query<TQuery>) -> Result<HttpResponseOk<TQuery>, HttpError> {
    ENTERED.fetch_add(1, Ordering::SeqCst);
    Ok(HttpResponseOk(q.into_inner()))
}
#[endpoint { method = POST, path = "/json" }]
async fn t_json(_r: RequestContext<()>, b: TypedBody<TBody>) -> Result<HttpResponseOk<TBody>, HttpError> {
    ENTERED.fetch_add(1, Ordering::SeqCst);
    Ok(HttpResponseOk(b.into_inner()))
}
#[endpoint { method = POST, path = "/form", content_type = "application/x-www-form-urlencoded" }]
async fn t_form(_r: RequestContext<()>, b: TypedBody<TBody>) -> Result<HttpResponseOk<TBody>, HttpError> {
    ENTERED.fetch_add(1, Ordering::SeqCst);
    Ok(HttpResponseOk(b.into_inner()))
}
#[endpoint { method = POST, path = "/text" }]
async fn t_text(_r: RequestContext<()>, b: UntypedBody) -> Result<HttpResponseOk<String>, HttpError> {
    ENTERED.fetch_add(1, Ordering::SeqCst);
    Ok(HttpResponseOk(b.as_str()?.to_string()))
}

fn typed_api() -> ApiDescription<()> {
    let mut api = ApiDescription::new();
    api.register(t_path).unwrap();
    api.register(t_path2).unwrap();
    api.register(t_query).unwrap();
    api.register(t_json).unwrap();
    api.register(t_form).unwrap();
    api.register(t_text).unwrap();
    api
}

/// {"op":"typed_request","method":"POST","target":"/json","content_type":s|null,"body":s|[bytes]}
/// -> {"status":n,"entered":k,"body":json}
fn op_typed_request(case: &Value) -> Value {
    let method = case["method"].as_str().unwrap_or("GET");
    let target = case["target"].as_str().unwrap_or("/");
    let body: Vec<u8> = match &case["body"] {
        Value::String(s) => s.as_bytes().to_vec(),
        Value::Array(a) => a.iter().map(|x| x.as_u64().unwrap() as u8).collect(),
        _ => vec![],
    };
    let mut rq = format!("{} {} HTTP/1.1\r\nHost: replay\r\nConnection: close\r\n", method, target).into_bytes();
    if let Some(ct) = case["content_type"].as_str() {
        if ct == "non-ascii" {
            // octets >= 0x80 are legal in a header value but HeaderValue::to_str refuses them
            rq.extend_from_slice(b"Content-Type: application/json\xc3\xa9\r\n");
        } else {
            rq.extend_from_slice(format!("Content-Type: {}\r\n", ct).as_bytes());
        }
    }
    if !body.is_empty() || method != "GET" {
        rq.extend_from_slice(format!("Content-Length: {}\r\n", body.len()).as_bytes());
    }
    rq.extend_from_slice(b"\r\n");
    rq.extend_from_slice(&body);
    ENTERED.store(0, Ordering::SeqCst);
    let resp = crate::live::serve_raw(typed_api(), 4096, vec![vec![rq]]);
    let entered = ENTERED.load(Ordering::SeqCst);
    match resp.into_iter().next().flatten() {
        None => json!({"status": 0, "entered": entered}),
        Some(r) => json!({"status": r.status, "entered": entered, "body": serde_json::from_slice::<Value>(&r.body).unwrap_or(Value::Null),
                          "x_request_id": r.header_all("x-request-id")}),
    }
}

// ---------------------------------------------------------------------------------- C06 (document level, native witness)
#[derive(Serialize, JsonSchema)]
enum CachePolicy { NoStore, Public }
#[derive(Serialize, JsonSchema)]
struct CacheHeader(CachePolicy);
#[derive(Serialize, JsonSchema)]
struct DocHeaders { #[serde(rename = "x-cache")] cache: CacheHeader, #[serde(rename = "x-n")] n: Option<u32> }
/// a named type used both as a query parameter member and inside a response body, carrying annotations
#[derive(Serialize, Deserialize, JsonSchema)]
#[schemars(example = "shared_mode_example")]
enum SharedMode {
    /// sort by name
    ByName,
    ById,
}
fn shared_mode_example() -> SharedMode { SharedMode::ByName }
#[derive(Deserialize, JsonSchema)]
struct DocQuery { mode: Option<SharedMode> }
#[derive(Serialize, JsonSchema)]
struct DocBody { inner: Vec<DocInner>, maybe: Option<Box<DocInner>>, mode: SharedMode }
#[derive(Serialize, JsonSchema)]
struct DocInner { n: u64 }

#[endpoint { method = GET, path = "/zz-doc" }]
async fn doc_endpoint(_r: RequestContext<()>, _q: Query<DocQuery>) -> Result<dropshot::HttpResponseHeaders<HttpResponseOk<DocBody>, DocHeaders>, HttpError> {
    Ok(dropshot::HttpResponseHeaders::new(HttpResponseOk(DocBody { inner: vec![], maybe: None, mode: SharedMode::ById }), DocHeaders { cache: CacheHeader(CachePolicy::Public), n: None }))
}

/// {"op":"openapi","endpoints":[{id,method,path(literals only),versions,visible}],"orders":[[..],..],"versions":[..]}
/// -> per version: operations [[path, METHOD, id]], identical across orders / repeated generation, all $refs resolve
fn op_openapi(case: &Value) -> Value {
    let eps = case["endpoints"].as_array().cloned().unwrap_or_default();
    let orders: Vec<Vec<usize>> = case["orders"].as_array().unwrap().iter()
        .map(|o| o.as_array().unwrap().iter().map(|x| x.as_u64().unwrap() as usize).collect()).collect();
    let versions: Vec<semver::Version> = case["versions"].as_array().unwrap().iter().map(|v| semver::Version::parse(v.as_str().unwrap()).unwrap()).collect();
    let mut per_version = vec![];
    let (mut same_across_orders, mut same_twice, mut refs_resolve) = (true, true, true);
    let mut shared_type = Value::Null;
    for v in &versions {
        let mut docs: Vec<Vec<u8>> = vec![];
        for order in &orders {
            let mut api = ApiDescription::<()>::new();
            if let Some(declared) = case["tag_config"].as_array() {
                // tags declared up front (kept in a HashMap by the framework), endpoints may use others too
                let tags = declared.iter().map(|t| {
                    (t.as_str().unwrap_or("t").to_string(), dropshot::TagDetails { description: Some(format!("about {}", t)), external_docs: None })
                }).collect();
                api = api.tag_config(dropshot::TagConfig { allow_other_tags: true, policy: dropshot::EndpointTagPolicy::Any, tags });
            }
            for &i in order {
                let e = crate::make_endpoint(&eps[i]).expect("endpoint");
                if let Err(e) = api.register(e) { return json!({"error": format!("register: {:?}", e)}); }
            }
            api.register(doc_endpoint).unwrap();
            api.register(zz_ws_hidden).unwrap();
            api.register(zz_ws_old).unwrap();
            let mut a = vec![];
            api.openapi("t", v.clone()).write(&mut a).unwrap();
            let mut b = vec![];
            api.openapi("t", v.clone()).write(&mut b).unwrap();
            if a != b { same_twice = false; }
            docs.push(a);
        }
        if docs.iter().any(|d| *d != docs[0]) { same_across_orders = false; }
        let doc: Value = serde_json::from_slice(&docs[0]).unwrap();
        let mut ops = vec![];
        let mut deprecated_ops = vec![];
        if let Some(paths) = doc["paths"].as_object() {
            for (p, item) in paths {
                for (m, op) in item.as_object().unwrap() {
                    ops.push(json!([p, m.to_uppercase(), op["operationId"]]));
                    if op["deprecated"] == true { deprecated_ops.push(op["operationId"].clone()); }
                }
            }
        }
        // every "$ref" must resolve inside the document
        fn walk(v: &Value, doc: &Value, ok: &mut bool) {
            match v {
                Value::Object(o) => {
                    if let Some(Value::String(r)) = o.get("$ref") {
                        if let Some(ptr) = r.strip_prefix('#') { if doc.pointer(ptr).is_none() { *ok = false; } } else { *ok = false; }
                    }
                    for x in o.values() { walk(x, doc, ok); }
                }
                Value::Array(a) => { for x in a { walk(x, doc, ok); } }
                _ => {}
            }
        }
        walk(&doc, &doc, &mut refs_resolve);
        shared_type = doc["components"]["schemas"]["SharedMode"].clone();
        per_version.push(json!({"version": v.to_string(), "operations": ops, "deprecated": deprecated_ops, "tags": doc["tags"].clone()}));
    }
    json!({"per_version": per_version, "same_across_orders": same_across_orders, "same_twice": same_twice, "refs_resolve": refs_resolve,
           "shared_type": shared_type})
}

// ---------------------------------------------------------------------------------- C09 echo server
#[derive(Deserialize, Serialize, JsonSchema, Debug, Clone, PartialEq)]
struct EPath { s: String, n: i64 }
#[derive(Deserialize, Serialize, JsonSchema, Debug, Clone, PartialEq)]
struct EQuery { s: String, n: Option<u64>, b: Option<bool>, c: Option<Color> }
#[derive(Deserialize, Serialize, JsonSchema, Debug, Clone, PartialEq)]
struct EBody { s: String, i: i64, u: u64, f: f64, b: bool, o: Option<String>, v: Vec<String>, nested: Option<Box<EBody>> }
#[derive(Deserialize, Serialize, JsonSchema, Debug, Clone, PartialEq)]
struct EForm { s: String, u: u64, b: bool }

#[endpoint { method = GET, path = "/e/{s}/{n}" }]
async fn e_path(_r: RequestContext<()>, p: Path<EPath>) -> Result<HttpResponseOk<EPath>, HttpError> { Ok(HttpResponseOk(p.into_inner())) }
#[endpoint { method = GET, path = "/eq" }]
async fn e_query(_r: RequestContext<()>, q: Query<EQuery>) -> Result<HttpResponseOk<EQuery>, HttpError> { Ok(HttpResponseOk(q.into_inner())) }
#[endpoint { method = POST, path = "/ej" }]
async fn e_json(_r: RequestContext<()>, b: TypedBody<EBody>) -> Result<HttpResponseOk<EBody>, HttpError> { Ok(HttpResponseOk(b.into_inner())) }
#[endpoint { method = POST, path = "/ef", content_type = "application/x-www-form-urlencoded" }]
async fn e_form(_r: RequestContext<()>, b: TypedBody<EForm>) -> Result<HttpResponseOk<EForm>, HttpError> { Ok(HttpResponseOk(b.into_inner())) }
#[endpoint { method = POST, path = "/eraw" }]
async fn e_raw(_r: RequestContext<()>, b: UntypedBody) -> Result<HttpResponseOk<Vec<u8>>, HttpError> { Ok(HttpResponseOk(b.as_bytes().to_vec())) }
#[endpoint { method = POST, path = "/em" }]
async fn e_multipart(_r: RequestContext<()>, mut b: dropshot::MultipartBody) -> Result<HttpResponseOk<Vec<(String, String)>>, HttpError> {
    let mut out = vec![];
    while let Some(field) = b.content.next_field().await.map_err(|e| HttpError::for_bad_request(None, e.to_string()))? {
        let name = field.name().unwrap_or("").to_string();
        let text = field.text().await.map_err(|e| HttpError::for_bad_request(None, e.to_string()))?;
        out.push((name, text));
    }
    Ok(HttpResponseOk(out))
}
#[endpoint { method = PUT, path = "/ectx/{x}" }]
async fn e_ctx(r: RequestContext<()>, p: Path<VarPath>, q: Query<EQuery>) -> Result<HttpResponseOk<Value>, HttpError> {
    Ok(HttpResponseOk(json!({
        "method": r.request.method().as_str(), "uri": r.request.uri().to_string(),
        "probe": r.request.headers().get("x-probe").map(|v| v.to_str().unwrap_or("?").to_string()),
        "tags": r.request.headers().get_all("x-tag").iter().map(|v| v.to_str().unwrap_or("?").to_string()).collect::<Vec<_>>(),
        "header_lines": r.request.headers().len(),
        "peer_is_loopback": r.request.remote_addr().ip().is_loopback(), "peer_port": r.request.remote_addr().port(),
        "request_id": r.request_id, "path_id": p.into_inner().x, "query_s": q.into_inner().s,
    })))
}

fn echo_api() -> ApiDescription<()> {
    let mut api = ApiDescription::new();
    api.register(e_path).unwrap();
    api.register(e_query).unwrap();
    api.register(e_json).unwrap();
    api.register(e_form).unwrap();
    api.register(e_raw).unwrap();
    api.register(e_multipart).unwrap();
    api.register(e_ctx).unwrap();
    api
}

/// {"op":"echo","connections":[[ {"raw": "text of one request"} | {"raw_bytes":[..]} , ... pipelined on one connection ], ...]}
/// -> per connection, the list of parsed responses (status, json body, x-request-id)
fn op_echo(case: &Value) -> Value {
    use std::io::{Read, Write};
    let conns: Vec<Vec<Vec<u8>>> = case["connections"].as_array().unwrap().iter().map(|c| {
        c.as_array().unwrap().iter().map(|r| match (&r["raw"], &r["raw_bytes"]) {
            (Value::String(s), _) => s.as_bytes().to_vec(),
            (_, Value::Array(a)) => a.iter().map(|x| x.as_u64().unwrap() as u8).collect(),
            _ => vec![],
        }).collect()
    }).collect();
    let rt = tokio::runtime::Builder::new_multi_thread().worker_threads(2).enable_all().build().unwrap();
    rt.block_on(async move {
        let log = slog::Logger::root(slog::Discard, slog::o!());
        let server = dropshot::ServerBuilder::new(echo_api(), (), log).start().expect("server");
        let addr = server.local_addr();
        let out = tokio::task::spawn_blocking(move || {
            let mut all = vec![];
            for reqs in conns {
                let mut s = std::net::TcpStream::connect(addr).unwrap();
                s.set_read_timeout(Some(std::time::Duration::from_secs(5))).unwrap();
                let local_port = s.local_addr().unwrap().port();
                // pipelined: everything is written before anything is read
                for r in &reqs { s.write_all(r).unwrap(); }
                let mut buf = vec![];
                let mut tmp = [0u8; 65536];
                let mut responses = vec![];
                while responses.len() < reqs.len() {
                    // try to parse one complete response from buf
                    let mut progressed = false;
                    if let Some(pos) = buf.windows(4).position(|w| w == b"\r\n\r\n") {
                        let head = String::from_utf8_lossy(&buf[..pos]).to_ascii_lowercase();
                        let cl = head.split("\r\n").find_map(|l| l.strip_prefix("content-length:").map(|v| v.trim().parse::<usize>().unwrap_or(0))).unwrap_or(0);
                        if buf.len() >= pos + 4 + cl {
                            let one: Vec<u8> = buf.drain(..pos + 4 + cl).collect();
                            if let Some(r) = crate::live::parse_response(&one) {
                                responses.push(json!({"status": r.status, "body": serde_json::from_slice::<Value>(&r.body).unwrap_or(Value::Null),
                                                      "x_request_id": r.header_all("x-request-id"), "client_port": local_port}));
                            }
                            progressed = true;
                        }
                    }
                    if !progressed {
                        match s.read(&mut tmp) { Ok(0) | Err(_) => break, Ok(n) => buf.extend_from_slice(&tmp[..n]) }
                    }
                }
                all.push(json!(responses));
            }
            all
        }).await.unwrap();
        let _ = tokio::time::timeout(std::time::Duration::from_millis(500), server.close()).await;
        json!({"connections": out})
    })
}

/// {"op":"request_id_many","n":k}: k requests on keep-alive connections of one server; are all x-request-id values different?
fn op_request_id_many(case: &Value) -> Value {
    use std::io::{Read, Write};
    let n = case["n"].as_u64().unwrap_or(1000) as usize;
    let rt = tokio::runtime::Builder::new_multi_thread().worker_threads(2).enable_all().build().unwrap();
    rt.block_on(async move {
        let log = slog::Logger::root(slog::Discard, slog::o!());
        let server = dropshot::ServerBuilder::new(echo_api(), (), log).start().expect("server");
        let addr = server.local_addr();
        let out = tokio::task::spawn_blocking(move || {
            let mut ids = std::collections::HashSet::new();
            let mut dup: Option<String> = None;
            let mut done = 0usize;
            let mut s = std::net::TcpStream::connect(addr).unwrap();
            s.set_nodelay(true).unwrap();
            s.set_read_timeout(Some(std::time::Duration::from_secs(10))).unwrap();
            let mut buf: Vec<u8> = vec![];
            let mut tmp = [0u8; 4096];
            while done < n {
                if s.write_all(b"GET /no-such-path HTTP/1.1\r\nHost: replay\r\n\r\n").is_err() { break; }
                // one response: headers + content-length body
                loop {
                    if let Some(pos) = buf.windows(4).position(|w| w == b"\r\n\r\n") {
                        let head = String::from_utf8_lossy(&buf[..pos]).to_ascii_lowercase();
                        let cl = head.split("\r\n").find_map(|l| l.strip_prefix("content-length:").map(|v| v.trim().parse::<usize>().unwrap_or(0))).unwrap_or(0);
                        if buf.len() >= pos + 4 + cl {
                            let id = head.split("\r\n").find_map(|l| l.strip_prefix("x-request-id:").map(|v| v.trim().to_string())).unwrap_or_default();
                            if !ids.insert(id.clone()) && dup.is_none() { dup = Some(id); }
                            buf.drain(..pos + 4 + cl);
                            break;
                        }
                    }
                    match s.read(&mut tmp) { Ok(0) | Err(_) => return json!({"all_distinct": false, "why": "connection ended", "done": done}), Ok(k) => buf.extend_from_slice(&tmp[..k]) }
                }
                done += 1;
            }
            json!({"all_distinct": dup.is_none() && ids.len() == n, "requests": done, "distinct": ids.len(), "first_repeat": dup})
        }).await.unwrap();
        let _ = tokio::time::timeout(std::time::Duration::from_millis(500), server.close()).await;
        out
    })
}

// ---------------------------------------------------------------------------------- C13 stamping on the wire
#[endpoint { method = GET, path = "/relay" }]
async fn relay(r: RequestContext<()>) -> Result<hyper::Response<dropshot::Body>, HttpError> {
    // a handler relaying an upstream response, headers included
    Ok(hyper::Response::builder().status(200).header("x-request-id", "upstream-5f0c1a52").header("x-handler-saw", r.request_id.clone())
        .body(dropshot::Body::from("relayed".to_string())).unwrap())
}
#[endpoint { method = GET, path = "/plain" }]
async fn plain(r: RequestContext<()>) -> Result<hyper::Response<dropshot::Body>, HttpError> {
    Ok(hyper::Response::builder().status(200).header("x-handler-saw", r.request_id.clone()).body(dropshot::Body::empty()).unwrap())
}
#[endpoint { method = GET, path = "/fail" }]
async fn fail(_r: RequestContext<()>) -> Result<HttpResponseOk<()>, HttpError> {
    Err(HttpError::for_unavail(None, "internal-secret".to_string()))
}

/// {"op":"request_id_relay"}: 40 requests over /plain /relay /fail /nonexistent: one x-request-id each, equal to the handler's / error body's, all unique
fn op_request_id_relay(_case: &Value) -> Value {
    let mut api = ApiDescription::new();
    api.register(relay).unwrap();
    api.register(plain).unwrap();
    api.register(fail).unwrap();
    let paths = ["/plain", "/relay", "/fail", "/nonexistent"];
    let reqs: Vec<Vec<Vec<u8>>> = (0..40).map(|i| vec![format!("GET {} HTTP/1.1\r\nHost: r\r\nConnection: close\r\n\r\n", paths[i % 4]).into_bytes()]).collect();
    let resps = crate::live::serve_raw(api, 1024, reqs);
    let mut ids = vec![];
    let mut problems = vec![];
    for (i, r) in resps.into_iter().enumerate() {
        let Some(r) = r else { problems.push(format!("#{} no response", i)); continue };
        let xs = r.header_all("x-request-id");
        if xs.len() != 1 { problems.push(format!("#{} {} has {} x-request-id headers: {:?}", i, paths[i % 4], xs.len(), xs)); continue }
        let saw = r.header_all("x-handler-saw");
        if !saw.is_empty() && saw[0] != xs[0] { problems.push(format!("#{} handler saw {} but header is {}", i, saw[0], xs[0])); }
        if r.status >= 400 {
            let b: Value = serde_json::from_slice(&r.body).unwrap_or(Value::Null);
            if b["request_id"] != xs[0] { problems.push(format!("#{} error body id {} != header {}", i, b["request_id"], xs[0])); }
            if String::from_utf8_lossy(&r.body).contains("internal-secret") { problems.push(format!("#{} internal message leaked", i)); }
        }
        ids.push(xs[0].clone());
    }
    let mut uniq = ids.clone();
    uniq.sort(); uniq.dedup();
    if uniq.len() != ids.len() { problems.push("request ids repeat".to_string()); }
    json!({"as_specified": problems.is_empty(), "problems": problems, "requests": ids.len()})
}

// ---------------------------------------------------------------------------------- C08
static DYN_SCHEMA: std::sync::Mutex<Option<schemars::schema::Schema>> = std::sync::Mutex::new(None);

#[derive(Serialize)]
struct DynTy;
impl JsonSchema for DynTy {
    fn schema_name() -> String { "DynTy".to_string() }
    fn is_referenceable() -> bool { false }
    fn json_schema(_: &mut schemars::gen::SchemaGenerator) -> schemars::schema::Schema {
        DYN_SCHEMA.lock().unwrap().clone().expect("schema set")
    }
}
#[endpoint { method = GET, path = "/dyn" }]
async fn dyn_endpoint(_r: RequestContext<()>) -> Result<HttpResponseOk<DynTy>, HttpError> { Ok(HttpResponseOk(DynTy)) }

#[derive(Serialize)]
struct DynHeaders { #[serde(rename = "x-dyn")] v: String }
impl JsonSchema for DynHeaders {
    fn schema_name() -> String { "DynHeaders".to_string() }
    fn json_schema(_: &mut schemars::gen::SchemaGenerator) -> schemars::schema::Schema {
        use schemars::schema::*;
        let mut ov = ObjectValidation::default();
        ov.properties.insert("x-dyn".to_string(), DYN_SCHEMA.lock().unwrap().clone().expect("schema set"));
        ov.required.insert("x-dyn".to_string());
        Schema::Object(SchemaObject { instance_type: Some(SingleOrVec::Single(Box::new(InstanceType::Object))), object: Some(Box::new(ov)), ..Default::default() })
    }
}
#[endpoint { method = GET, path = "/dynh" }]
async fn dynh_endpoint(_r: RequestContext<()>) -> Result<dropshot::HttpResponseHeaders<HttpResponseOk<u8>, DynHeaders>, HttpError> {
    Ok(dropshot::HttpResponseHeaders::new(HttpResponseOk(0), DynHeaders { v: String::new() }))
}

/// {"op":"j2oas","schema":{JSON Schema keywords},"null_default":bool} -> published OpenAPI schema + keyword comparison
fn op_j2oas(case: &Value) -> Value {
    let input = case["schema"].clone();
    let mut obj: schemars::schema::SchemaObject = match serde_json::from_value(input.clone()) {
        Ok(o) => o,
        Err(e) => return json!({"error": format!("schema: {}", e)}),
    };
    if case["null_default"].as_bool().unwrap_or(false) {
        obj.metadata().default = Some(Value::Null);
    }
    *DYN_SCHEMA.lock().unwrap() = Some(schemars::schema::Schema::Object(obj));
    let r = crate::quiet(|| {
        let mut api = ApiDescription::<()>::new();
        api.register(dyn_endpoint).unwrap();
        api.openapi("t", semver::Version::new(1, 0, 0)).json().unwrap()
    });
    let doc = match r { Ok(d) => d, Err(p) => return json!({"panic": p}) };
    if case["as_header"].as_bool().unwrap_or(false) {
        // the same schema as the type of a declared response header (placed through schema_extract_description)
        let r = crate::quiet(|| {
            let mut api = ApiDescription::<()>::new();
            api.register(dynh_endpoint).unwrap();
            api.openapi("t", semver::Version::new(1, 0, 0)).json().unwrap()
        });
        return match r {
            Ok(d) => json!({"header": d["paths"]["/dynh"]["get"]["responses"]["200"]["headers"]["x-dyn"].clone()}),
            Err(p) => json!({"panic": p}),
        };
    }
    let out = doc["paths"]["/dyn"]["get"]["responses"]["200"]["content"]["application/json"]["schema"].clone();
    let num = |v: &Value| v.as_f64();
    let mut equivalent = out["type"] == input["type"];
    // OpenAPI 3.0: exclusiveMinimum / exclusiveMaximum are booleans next to minimum / maximum
    for (lo, xlo, olo, oxlo) in [("minimum", "exclusiveMinimum", "minimum", "exclusiveMinimum"), ("maximum", "exclusiveMaximum", "maximum", "exclusiveMaximum")] {
        let (want, excl) = if !input[xlo].is_null() { (num(&input[xlo]), true) } else { (num(&input[lo]), false) };
        equivalent = equivalent && num(&out[olo]) == want && out[oxlo].as_bool().unwrap_or(false) == excl;
    }
    equivalent = equivalent && num(&out["multipleOf"]) == num(&input["multipleOf"]) && out["format"] == input["format"];
    let mut annotations_kept = true;
    for k in ["description", "deprecated", "x-rust-type", "example"] {
        if !input[k].is_null() && out[k] != input[k] { annotations_kept = false; }
    }
    if input["nullable"].as_bool() == Some(true) && out["nullable"] != true { annotations_kept = false; }
    if case["null_default"].as_bool().unwrap_or(false) {
        if !out.as_object().map(|o| o.contains_key("default")).unwrap_or(false) || !out["default"].is_null() { annotations_kept = false; }
    } else if !input["default"].is_null() && out["default"] != input["default"] { annotations_kept = false; }
    json!({"openapi": out, "equivalent": equivalent, "annotations_kept": annotations_kept})
}

// ---------------------------------------------------------------------------------- C02 registration validation
static DYN_PATH: std::sync::Mutex<Vec<(String, String)>> = std::sync::Mutex::new(vec![]);
static DYN_QUERY: std::sync::Mutex<Vec<(String, String)>> = std::sync::Mutex::new(vec![]);

fn shape_schema(shape: &str, gen: &mut schemars::gen::SchemaGenerator) -> Option<schemars::schema::Schema> {
    use schemars::schema::*;
    let scal = |t: InstanceType| Schema::Object(SchemaObject { instance_type: Some(SingleOrVec::Single(Box::new(t))), ..Default::default() });
    let obj = || scal(InstanceType::Object);
    let arr = |item: Schema| Schema::Object(SchemaObject {
        instance_type: Some(SingleOrVec::Single(Box::new(InstanceType::Array))),
        array: Some(Box::new(ArrayValidation { items: Some(SingleOrVec::Single(Box::new(item))), ..Default::default() })),
        ..Default::default()
    });
    let sub = |f: &dyn Fn(&mut SubschemaValidation)| { let mut s = SubschemaValidation::default(); f(&mut s); Schema::Object(SchemaObject { subschemas: Some(Box::new(s)), ..Default::default() }) };
    let mut def = |gen: &mut schemars::gen::SchemaGenerator, name: &str, s: Schema| { gen.definitions_mut().insert(name.to_string(), s); Schema::new_ref(format!("#/components/schemas/{}", name)) };
    Some(match shape {
        "string" => scal(InstanceType::String), "integer" => scal(InstanceType::Integer), "number" => scal(InstanceType::Number), "boolean" => scal(InstanceType::Boolean),
        "null" => scal(InstanceType::Null), "object" => obj(),
        "array-of-string" => arr(scal(InstanceType::String)), "array-of-integer" => arr(scal(InstanceType::Integer)),
        "ref-to-string" => def(gen, "S", scal(InstanceType::String)), "ref-to-object" => def(gen, "O", obj()),
        "ref-chain-to-integer" => { def(gen, "B", scal(InstanceType::Integer)); def(gen, "A", Schema::new_ref("#/components/schemas/B".to_string())) }
        "ref-to-array-of-string" => def(gen, "L", arr(scal(InstanceType::String))),
        "oneOf-scalars" => sub(&|s| s.one_of = Some(vec![scal(InstanceType::String), scal(InstanceType::Integer)])),
        "oneOf-scalar-and-object" => sub(&|s| s.one_of = Some(vec![scal(InstanceType::String), obj()])),
        "oneOf-object-and-scalar" => sub(&|s| s.one_of = Some(vec![obj(), scal(InstanceType::String)])),
        "oneOf-ref-scalar-and-ref-object" => { let a = def(gen, "S", scal(InstanceType::String)); let b = def(gen, "O", obj()); sub(&|s| s.one_of = Some(vec![a.clone(), b.clone()])) }
        "allOf-one-scalar" => sub(&|s| s.all_of = Some(vec![scal(InstanceType::Integer)])),
        "allOf-two-scalars" => sub(&|s| s.all_of = Some(vec![scal(InstanceType::Integer), scal(InstanceType::String)])),
        "anyOf-one-object" => sub(&|s| s.any_of = Some(vec![obj()])),
        "anyOf-one-ref-scalar" => { let a = def(gen, "S", scal(InstanceType::Boolean)); sub(&|s| s.any_of = Some(vec![a.clone()])) }
        _ => return None,
    })
}

fn struct_schema(fields: &[(String, String)], gen: &mut schemars::gen::SchemaGenerator) -> schemars::schema::Schema {
    use schemars::schema::*;
    let mut ov = ObjectValidation::default();
    for (name, shape) in fields {
        ov.properties.insert(name.clone(), shape_schema(shape, gen).expect("known shape"));
        ov.required.insert(name.clone());
    }
    Schema::Object(SchemaObject { instance_type: Some(SingleOrVec::Single(Box::new(InstanceType::Object))), object: Some(Box::new(ov)), ..Default::default() })
}

#[derive(Deserialize)]
struct DynPath {}
impl JsonSchema for DynPath {
    fn schema_name() -> String { "DynPath".to_string() }
    fn json_schema(gen: &mut schemars::gen::SchemaGenerator) -> schemars::schema::Schema { struct_schema(&DYN_PATH.lock().unwrap().clone(), gen) }
}
#[derive(Deserialize)]
struct DynQuery {}
impl JsonSchema for DynQuery {
    fn schema_name() -> String { "DynQuery".to_string() }
    fn json_schema(gen: &mut schemars::gen::SchemaGenerator) -> schemars::schema::Schema { struct_schema(&DYN_QUERY.lock().unwrap().clone(), gen) }
}
#[endpoint { method = GET, path = "/placeholder" }]
async fn dyn_params(_r: RequestContext<()>, _p: Path<DynPath>, _q: Query<DynQuery>) -> Result<HttpResponseOk<()>, HttpError> { Ok(HttpResponseOk(())) }

/// {"op":"register_params","path":"/a/{x}","params":[["Path"|"Query", name, shape], ..]} -> {"rejected": bool, "message": ..}
fn op_register_params(case: &Value) -> Value {
    let mut p = vec![]; let mut q = vec![];
    let mut probe = schemars::gen::SchemaGenerator::default();
    for it in case["params"].as_array().unwrap() {
        let (kind, name, shape) = (it[0].as_str().unwrap(), it[1].as_str().unwrap().to_string(), it[2].as_str().unwrap().to_string());
        if shape_schema(&shape, &mut probe).is_none() { return json!({"unsupported": shape}); }
        if kind == "Path" { p.push((name, shape)) } else { q.push((name, shape)) }
    }
    *DYN_PATH.lock().unwrap() = p;
    *DYN_QUERY.lock().unwrap() = q;
    let path = case["path"].as_str().unwrap().to_string();
    let r = crate::quiet(|| {
        let mut e: ApiEndpoint<()> = ApiEndpoint::from(dyn_params);
        e.path = path;
        e.visible = !e.path.contains(":.*") && case["visible"].as_bool().unwrap_or(true);
        let mut api = ApiDescription::<()>::new();
        api.register(e)
    });
    match r {
        Err(pn) => json!({"rejected": true, "panic": pn}),
        Ok(Ok(())) => json!({"rejected": false}),
        Ok(Err(e)) => json!({"rejected": true, "message": format!("{:?}", e)}),
    }
}

// a trait-based API that declares its tags and leaves `allow_other_tags` at its documented default (false: the set is closed)
#[dropshot::api_description { tag_config = { tags = { declared = { description = "the only declared tag" } } } }]
trait ClosedTagsApi {
    type Context;
    #[endpoint { method = GET, path = "/rogue", tags = ["rogue"] }]
    async fn closed_rogue(rqctx: RequestContext<Self::Context>) -> Result<HttpResponseOk<u32>, HttpError>;
}
#[dropshot::api_description { tag_config = { tags = { declared = { description = "the only declared tag" } } } }]
trait ClosedTagsOkApi {
    type Context;
    #[endpoint { method = GET, path = "/fine", tags = ["declared"] }]
    async fn closed_fine(rqctx: RequestContext<Self::Context>) -> Result<HttpResponseOk<u32>, HttpError>;
}
#[dropshot::api_description { tag_config = { allow_other_tags = true, tags = { declared = { description = "the only declared tag" } } } }]
trait OpenTagsApi {
    type Context;
    #[endpoint { method = GET, path = "/rogue", tags = ["rogue"] }]
    async fn open_rogue(rqctx: RequestContext<Self::Context>) -> Result<HttpResponseOk<u32>, HttpError>;
}
enum TagsImpl {}
impl ClosedTagsApi for TagsImpl {
    type Context = ();
    async fn closed_rogue(_rqctx: RequestContext<()>) -> Result<HttpResponseOk<u32>, HttpError> { Ok(HttpResponseOk(1)) }
}
impl ClosedTagsOkApi for TagsImpl {
    type Context = ();
    async fn closed_fine(_rqctx: RequestContext<()>) -> Result<HttpResponseOk<u32>, HttpError> { Ok(HttpResponseOk(1)) }
}
impl OpenTagsApi for TagsImpl {
    type Context = ();
    async fn open_rogue(_rqctx: RequestContext<()>) -> Result<HttpResponseOk<u32>, HttpError> { Ok(HttpResponseOk(1)) }
}

/// {"op":"trait_tags"}: registration through the trait-based API macro, whose tag configuration is written in the macro arguments
fn op_trait_tags(_case: &Value) -> Value {
    json!({
        "closed_rogue_rejected": closed_tags_api_mod::api_description::<TagsImpl>().is_err(),
        "closed_rogue_stub_rejected": closed_tags_api_mod::stub_api_description().is_err(),
        "closed_declared_rejected": closed_tags_ok_api_mod::api_description::<TagsImpl>().is_err(),
        "open_rogue_rejected": open_tags_api_mod::api_description::<TagsImpl>().is_err(),
    })
}

/// {"op":"register_tags","policy":"Any"|"AtLeastOne"|"ExactlyOne","allow_other":b,"tags":[..],"visible":b}
fn op_register_tags(case: &Value) -> Value {
    use dropshot::{EndpointTagPolicy, TagConfig, TagDetails};
    let policy = match case["policy"].as_str().unwrap() { "AtLeastOne" => EndpointTagPolicy::AtLeastOne, "ExactlyOne" => EndpointTagPolicy::ExactlyOne, _ => EndpointTagPolicy::Any };
    let mut tags = std::collections::HashMap::new();
    tags.insert("known-a".to_string(), TagDetails::default());
    tags.insert("known-b".to_string(), TagDetails::default());
    let tc = TagConfig { allow_other_tags: case["allow_other"].as_bool().unwrap(), policy, tags };
    let mut e: ApiEndpoint<()> = ApiEndpoint::from(crate::generic_handler);
    e.tags = case["tags"].as_array().unwrap().iter().map(|t| t.as_str().unwrap().to_string()).collect();
    e.visible = case["visible"].as_bool().unwrap();
    e.path = "/a".to_string();
    let mut api = ApiDescription::<()>::new().tag_config(tc);
    match api.register(e) {
        Ok(()) => json!({"rejected": false}),
        Err(e) => json!({"rejected": true, "message": format!("{:?}", e)}),
    }
}

//! Native replay (E3): reads one JSON case per line on stdin, evaluates it on dropshot's real
//! compiled code through the public API only, prints one JSON result per line.
//! Not a deciding step: it confirms (or refutes) models returned by the solver.

use dropshot::endpoint;
use dropshot::ApiDescription;
use dropshot::ApiEndpoint;
use dropshot::ApiEndpointVersions;
use dropshot::HttpError;
use dropshot::HttpResponseOk;
use dropshot::RequestContext;
use serde_json::json;
use serde_json::Value;
use std::io::BufRead;
use std::panic::catch_unwind;
use std::panic::AssertUnwindSafe;

mod live;
mod ops;

#[endpoint { method = GET, path = "/placeholder" }]
async fn generic_handler(
    _rqctx: RequestContext<()>,
) -> Result<HttpResponseOk<()>, HttpError> {
    Ok(HttpResponseOk(()))
}

pub fn parse_versions(v: &Value) -> Result<ApiEndpointVersions, String> {
    let ver = |k: &str| -> semver::Version {
        semver::Version::parse(v[k].as_str().expect("version string"))
            .expect("semver")
    };
    match v["k"].as_str().unwrap_or("All") {
        "All" => Ok(ApiEndpointVersions::all()),
        "From" => Ok(ApiEndpointVersions::from(ver("a"))),
        "Until" => Ok(ApiEndpointVersions::until(ver("b"))),
        "FromUntil" => ApiEndpointVersions::from_until(ver("a"), ver("b"))
            .map_err(|e| e.to_string()),
        k => panic!("bad versions kind {}", k),
    }
}

pub fn make_endpoint(spec: &Value) -> Result<ApiEndpoint<()>, String> {
    let mut e: ApiEndpoint<()> = ApiEndpoint::from(generic_handler);
    e.operation_id = spec["id"].as_str().unwrap_or("op").to_string();
    e.method = http::Method::from_bytes(
        spec["method"].as_str().unwrap_or("GET").as_bytes(),
    )
    .expect("method");
    e.path = spec["path"].as_str().unwrap_or("/").to_string();
    e.versions = parse_versions(&spec["versions"])?;
    if let Some(n) = spec["max_bytes"].as_u64() {
        e.request_body_max_bytes = Some(n as usize);
    }
    if let Some(v) = spec["visible"].as_bool() {
        e.visible = v;
    }
    if let Some(tags) = spec["tags"].as_array() {
        e.tags = tags.iter().map(|t| t.as_str().unwrap_or("t").to_string()).collect();
    }
    Ok(e)
}

pub fn quiet<T>(f: impl FnOnce() -> T) -> Result<T, String> {
    catch_unwind(AssertUnwindSafe(f)).map_err(|p| {
        if let Some(s) = p.downcast_ref::<String>() {
            s.clone()
        } else if let Some(s) = p.downcast_ref::<&str>() {
            s.to_string()
        } else {
            "panic".to_string()
        }
    })
}

pub fn opt_version(v: &Value) -> Option<semver::Version> {
    v.as_str().map(|s| semver::Version::parse(s).expect("semver"))
}

/// {"op":"router","endpoints":[{id,method,path,versions,max_bytes?,visible?}],"order":[..],
///  "requests":[{method,path,version|null}], "iter_versions":[v|null,...]}
fn op_router(case: &Value) -> Value {
    let mut router = ApiDescription::<()>::new().into_router();
    let eps = case["endpoints"].as_array().cloned().unwrap_or_default();
    let order: Vec<usize> = case["order"]
        .as_array()
        .map(|a| a.iter().map(|x| x.as_u64().unwrap() as usize).collect())
        .unwrap_or_else(|| (0..eps.len()).collect());
    let mut registered = vec![];
    for &i in &order {
        match make_endpoint(&eps[i]) {
            Err(e) => registered.push(json!({"i": i, "ok": false, "why": e, "stage": "versions"})),
            Ok(e) => {
                let r = quiet(|| router.insert(e));
                match r {
                    Ok(()) => registered.push(json!({"i": i, "ok": true})),
                    Err(p) => {
                        registered.push(json!({"i": i, "ok": false, "why": p, "stage": "insert"}));
                        // a panicking insert may leave the router half-updated; stop here
                        break;
                    }
                }
            }
        }
    }
    let mut results = vec![];
    for rq in case["requests"].as_array().cloned().unwrap_or_default() {
        let method = rq["method"].as_str().unwrap_or("GET").to_string();
        let path = rq["path"].as_str().unwrap_or("/").to_string();
        let version = opt_version(&rq["version"]);
        let m = http::Method::from_bytes(method.as_bytes()).expect("method");
        let r = quiet(|| {
            router.lookup_route(&m, path.as_str().into(), version.as_ref())
        });
        results.push(match r {
            Err(p) => json!({"panic": p}),
            Ok(Ok(res)) => {
                let vars: serde_json::Map<String, Value> = res
                    .endpoint
                    .variables
                    .iter()
                    .map(|(k, v)| (k.clone(), Value::String(format!("{:?}", v))))
                    .collect();
                json!({"ok": {
                    "operation_id": res.endpoint.operation_id,
                    "variables": vars,
                    "body_content_type": format!("{:?}", res.endpoint.body_content_type),
                    "max_bytes": res.endpoint.request_body_max_bytes,
                }})
            }
            Ok(Err(e)) => {
                let allow: Vec<String> = e
                    .headers
                    .as_ref()
                    .map(|h| {
                        h.get_all(http::header::ALLOW)
                            .iter()
                            .map(|v| v.to_str().unwrap_or("?").to_string())
                            .collect()
                    })
                    .unwrap_or_default();
                let status = e.status_code.as_u16();
                let external = e.external_message.clone();
                // what the client is sent
                let resp = e.into_response("replay-request-id");
                let allow_sent: Vec<String> = resp
                    .headers()
                    .get_all(http::header::ALLOW)
                    .iter()
                    .map(|v| v.to_str().unwrap_or("?").to_string())
                    .collect();
                json!({"err": {
                    "status": status,
                    "allow": allow,
                    "allow_sent": allow_sent,
                    "response_status": resp.status().as_u16(),
                    "external": external,
                }})
            }
        });
    }
    let mut iters = vec![];
    for v in case["iter_versions"].as_array().cloned().unwrap_or_default() {
        let version = opt_version(&v);
        let items: Vec<Value> = router
            .endpoints(version.as_ref())
            .map(|(path, method, e)| json!([path, method, e.operation_id]))
            .collect();
        iters.push(json!(items));
    }
    json!({"registered": registered, "results": results, "iters": iters,
           "has_versioned": router.has_versioned_routes()})
}

fn main() {
    std::panic::set_hook(Box::new(|info| { if std::env::var("REPLAY_DEBUG").is_ok() { eprintln!("{}", info); } }));
    let stdin = std::io::stdin();
    for line in stdin.lock().lines() {
        let line = line.expect("stdin");
        if line.trim().is_empty() {
            continue;
        }
        let case: Value = serde_json::from_str(&line).expect("json case");
        let out = match case["op"].as_str().unwrap_or("") {
            "router" => op_router(&case),
            other => ops::dispatch(other, &case),
        };
        println!("{}", out);
    }
}

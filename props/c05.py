"""C05 — Version ranges mean what they say; conflict means a shared version."""
import itertools
import z3

from mirsym import mir
from mirsym.core import Adt, Cell, Opaque, Ref, SymStr, Tup, Unsupported, dv, StrSort
from mirsym.models import BASE_MODELS
from mirsym.runner import Check, Inconclusive, replay
from props import httpmodel, vermodel
from props.vermodel import V, v_lt, v_le, v_ge, v_eq, concretise

KINDS = ['All', 'From', 'FromUntil', 'Until']


def mk_range(ex, kind, a, b):
    if kind == 'All': return ex.mk_enum('ApiEndpointVersions', 'All')
    if kind == 'From': return ex.mk_enum('ApiEndpointVersions', 'From', [a.adt()])
    if kind == 'Until': return ex.mk_enum('ApiEndpointVersions', 'Until', [b.adt()])
    pair = ex.mk_struct('OrderedVersionPair', earliest=a.adt(), until=b.adt())
    return ex.mk_enum('ApiEndpointVersions', 'FromUntil', [pair])


def spec_in(kind, a, b, v):
    """interval semantics of the statement"""
    if kind == 'All': return z3.BoolVal(True)
    if kind == 'From': return v_ge(v, a)
    if kind == 'Until': return v_lt(v, b)
    return z3.And(v_ge(v, a), z3.Or(v_lt(v, b), z3.And(v_eq(v, b), v_eq(a, b))))


def range_assume(kind, a, b):
    # from_until() only builds ordered pairs (checked separately below)
    return a.wf() + b.wf() + ([v_le(a, b)] if kind == 'FromUntil' else [])


def rjson(kind, a, b):
    return {'All': {'k': 'All'}, 'From': {'k': 'From', 'a': a}, 'Until': {'k': 'Until', 'b': b},
            'FromUntil': {'k': 'FromUntil', 'a': a, 'b': b}}[kind]


def native_matches(kind, a, b, v):
    case = {'op': 'router', 'endpoints': [{'id': 'e', 'method': 'GET', 'path': '/x', 'versions': rjson(kind, a, b)}],
            'requests': [{'method': 'GET', 'path': '/x', 'version': v}]}
    r = replay([case])[0]
    return 'ok' in r['results'][0], case


def native_overlap(k1, a1, b1, k2, a2, b2):
    case = {'op': 'router', 'endpoints': [{'id': 'e1', 'method': 'GET', 'path': '/x', 'versions': rjson(k1, a1, b1)},
                                          {'id': 'e2', 'method': 'GET', 'path': '/x', 'versions': rjson(k2, a2, b2)}],
            'requests': []}
    r = replay([case])[0]
    return (not r['registered'][-1]['ok']), case


def run(tier, replay_file=None):
    chk = Check('C05', tier)
    ex = chk.load(vermodel.MODELS + BASE_MODELS + httpmodel.MODELS)
    ex.const_models.append(httpmodel.const_model)
    vermodel.register_comparator(ex)
    F_matches = mir.find(ex.fns, r'api_description::<impl at [^>]*>::matches$')
    F_overlaps = mir.find(ex.fns, r'api_description::<impl at [^>]*>::overlaps_with$')
    F_from_until = mir.find(ex.fns, r'api_description::<impl at [^>]*>::from_until$')
    a1, b1, a2, b2, v = [V(n) for n in ('a1', 'b1', 'a2', 'b2', 'v')]
    chk.bounds = {'versions': 'unbounded: abstract dense total order (z3 Real); all 4 range kinds; all 4x4 ordered pairs',
                  'header': 'presence/ASCII/parse outcome symbolic; parsed and max versions symbolic'}
    chk.assumptions = ['semver::Version comparison operators implement a total order (any total order is covered)',
                       'no version is below 0.0.0-0, i.e. `until 0.0.0-0` (an empty range) is outside the claim',
                       'FromUntil values are built by from_until() (earliest <= until); from_until itself is checked']

    # ---- (1) membership
    for kind in KINDS:
        for has_v in (False, True):
            def h(ex):
                r = mk_range(ex, kind, a1, b1)
                arg = ex.some(Ref(Cell(v.adt()))) if has_v else ex.none()
                return ex.call_fn(F_matches, [Ref(Cell(r)), arg])
            outs = ex.explore(h, range_assume(kind, a1, b1) + v.wf())
            chk.paths += len(outs)
            spec = spec_in(kind, a1, b1, v) if has_v else z3.BoolVal(True)
            for pc, (k, res) in outs:
                if k != 'ok': raise Inconclusive(f'matches panicked: {res}')
                res = z3.BoolVal(res) if isinstance(res, bool) else res
                m = chk.prove(f'matches/{kind}/{"v" if has_v else "none"}', pc, res != spec)
                if m is not None:
                    c = concretise(m, [a1, b1, v])
                    got, case = native_matches(kind, c['a1'], c['b1'], c['v'] if has_v else None)
                    want = bool(m.eval(spec, model_completion=True))
                    chk.counterexample(f'membership of {c["v"] if has_v else "<none>"} in {rjson(kind, c["a1"], c["b1"])}: '
                                       f'served={got}, statement says {want}', case, got != want,
                                       role=f'matches:{kind}')
            # vacuity: both answers reachable where the spec allows
            if has_v and kind != 'All':
                for want in (True, False):
                    pcs = [z3.And(*pc, (zb(res) == want)) for pc, (k, res) in outs]
                    m = chk.witness(f'matches/{kind}/reach-{want}', range_assume(kind, a1, b1) + v.wf(), z3.Or(pcs))
                    c = concretise(m, [a1, b1, v])
                    got, case = native_matches(kind, c['a1'], c['b1'], c['v'])
                    chk.replayed += 1
                    if got != want: raise Inconclusive(f'witness mismatch for matches/{kind}: native {got} vs {want}: {case}')
                    chk.samples.append({'kind': kind, 'a': c['a1'], 'b': c['b1'], 'probe': c['v'], 'served': got})

    # ---- (2) from_until
    def h(ex):
        return ex.call_fn(F_from_until, [a1.adt(), b1.adt()])
    outs = ex.explore(h, a1.wf() + b1.wf())
    chk.paths += len(outs)
    for pc, (k, res) in outs:
        if k != 'ok': raise Inconclusive(f'from_until panicked: {res}')
        is_err = res.discr == 1
        m = chk.prove('from_until/err-iff-unordered', pc, z3.BoolVal(is_err) != v_lt(b1, a1))
        if m is not None:
            c = concretise(m, [a1, b1])
            r = replay([{'op': 'from_until', 'a': c['a1'], 'b': c['b1']}])[0]
            want_ok = not bool(m.eval(v_lt(b1, a1), model_completion=True))
            chk.counterexample(f'from_until({c["a1"]},{c["b1"]}) ok={r["ok"]}, statement says {want_ok}',
                               {'op': 'from_until', 'a': c['a1'], 'b': c['b1']}, r['ok'] != want_ok, role='from_until')
        if not is_err:
            pair = ex.payload(ex.payload(res))
            ea, eu = ex.field(pair, 'earliest').v, ex.field(pair, 'until').v
            m = chk.prove('from_until/fields', pc, z3.Not(z3.And(v_eq(ea, a1), v_eq(eu, b1))))
            if m is not None:
                raise Inconclusive('from_until stores different bounds (cannot be replayed through the public API)')

    # ---- (3) overlap  <=>  exists a shared version, symmetric
    res_terms = {}
    for k1, k2 in itertools.product(KINDS, KINDS):
        def h(ex):
            r1, r2 = mk_range(ex, k1, a1, b1), mk_range(ex, k2, a2, b2)
            return ex.call_fn(F_overlaps, [Ref(Cell(r1)), Ref(Cell(r2))])
        assume = range_assume(k1, a1, b1) + range_assume(k2, a2, b2)
        outs = ex.explore(h, assume)
        chk.paths += len(outs)
        w = V('w')
        shared_q = z3.Exists(w.terms(), z3.And(*w.wf(), spec_in(k1, a1, b1, w), spec_in(k2, a2, b2, w)))
        # quantifier-free characterisation (a total order without least element: ranges meet iff a lower bound lies in both)
        lows = ([a1] if k1 in ('From', 'FromUntil') else []) + ([a2] if k2 in ('From', 'FromUntil') else [])
        shared = z3.Or([z3.And(spec_in(k1, a1, b1, c_), spec_in(k2, a2, b2, c_)) for c_ in lows]) if lows else z3.BoolVal(True)
        chk.prove(f'overlap-spec/{k1}x{k2}/quantifier-free-form-equals-exists-a-shared-version', assume, shared != shared_q, allow_unknown=True)
        for pc, (k, res) in outs:
            if k != 'ok': raise Inconclusive(f'overlaps_with panicked: {res}')
            m = chk.prove(f'overlap/{k1}x{k2}', pc, zb(res) != shared)
            if m is None: chk.prove(f'overlap-exists/{k1}x{k2}', pc, zb(res) != shared_q, allow_unknown=True)
            if m is not None:
                c = concretise(m, [a1, b1, a2, b2])
                got, case = native_overlap(k1, c['a1'], c['b1'], k2, c['a2'], c['b2'])
                # what the statement says = the opposite of what the code answered in this model
                want = not bool(m.eval(zb(res), model_completion=True))
                chk.counterexample(f'{rjson(k1, c["a1"], c["b1"])} vs {rjson(k2, c["a2"], c["b2"])}: second registration '
                                   f'{"refused" if got else "accepted"}, statement says {"refuse" if want else "accept"}',
                                   case, got != want, role=f'overlap:{k1}x{k2}')
        res_terms[(k1, k2)] = outs
        for want in (True, False):
            pcs = [z3.And(*pc, zb(res) == want) for pc, (k, res) in outs]
            s = z3.Solver(); s.add(assume); s.add(z3.Or(pcs))
            if s.check() == z3.sat:       # some kind pairs always overlap
                m = chk.witness(f'overlap/{k1}x{k2}/reach-{want}', assume, z3.Or(pcs))
                c = concretise(m, [a1, b1, a2, b2])
                got, case = native_overlap(k1, c['a1'], c['b1'], k2, c['a2'], c['b2'])
                chk.replayed += 1
                if got != want: raise Inconclusive(f'witness mismatch overlap/{k1}x{k2}: native {got} vs {want}: {case}')
                if len(chk.samples) < 10:
                    chk.samples.append({'r1': rjson(k1, c['a1'], c['b1']), 'r2': rjson(k2, c['a2'], c['b2']), 'conflict': got})
            elif want and k1 != 'All' and k2 != 'All' and not (k1 == k2 and k1 in ('From', 'Until')):
                pass
    # symmetry: overlaps(r1,r2) == overlaps(r2,r1)
    swap = []
    for x, y in ((a1, a2), (b1, b2)):
        for tx, ty in zip(x.terms(), y.terms()):
            swap += [(tx, ty), (ty, tx)]
    for k1, k2 in itertools.product(KINDS, KINDS):
        o12, o21 = res_terms[(k1, k2)], res_terms[(k2, k1)]
        t12 = z3.Or([z3.And(*pc, zb(r)) for pc, (_, r) in o12])
        t21 = z3.substitute(z3.Or([z3.And(*pc, zb(r)) for pc, (_, r) in o21]), *swap)   # simultaneous substitution
        assume = range_assume(k1, a1, b1) + range_assume(k2, a2, b2)
        m = chk.prove(f'overlap-symmetric/{k1}x{k2}', assume, t12 != t21)
        if m is not None:
            c = concretise(m, [a1, b1, a2, b2])
            g1, case = native_overlap(k1, c['a1'], c['b1'], k2, c['a2'], c['b2'])
            g2, case2 = native_overlap(k2, c['a2'], c['b2'], k1, c['a1'], c['b1'])
            chk.counterexample(f'conflict depends on registration order: {case["endpoints"]}', case, g1 != g2,
                               role=f'overlap-order:{k1}x{k2}')

    # ---- (4) header policy
    header_policy(chk, ex)
    # ---- (5) the request entry point routes at exactly the version the policy resolved
    entry_point(chk, ex)
    # ---- (6) conflict at registration = a shared version, also when several ranges are already registered for the method and path
    registration_conflicts(chk, ex)

    return chk.finish('one obligation per (function, range kind(s), execution path); non-trivial = distinct obligation name')


def zb(x):
    return z3.BoolVal(x) if isinstance(x, bool) else x


def header_policy(chk, ex):
    F = mir.find(ex.fns, r'versioning::<impl at [^>]*>::request_extract_version$')
    present, ascii_ok, parses = z3.Bools('hdr_present hdr_ascii hdr_parses')
    hv, vmax = V('hdr_version'), V('max_version')
    def h(ex):
        hm = httpmodel.SymHeaderMap({'api-version': httpmodel.SymHeaderValue(present, ascii_ok, parses, hv.adt())})
        req = httpmodel.Request(headers=hm)
        policy = ex.mk_struct('ClientSpecifiesVersionInHeader', name='api-version', max_version=vmax.adt())
        return ex.call_fn(F, [Ref(Cell(policy)), Ref(Cell(req)), Opaque('log')])
    outs = ex.explore(h, hv.wf() + vmax.wf())
    chk.paths += len(outs)
    good = z3.And(present, ascii_ok, parses, v_le(hv, vmax))
    n_ok = 0
    for pc, (k, res) in outs:
        if k != 'ok':
            m = chk.prove('header/no-panic', pc, z3.BoolVal(True))
            raise Inconclusive(f'header policy panics: {res} (no public-API replay for this shape)')
        if res.discr == 0:
            n_ok += 1
            val = ex.payload(res)
            m = chk.prove('header/ok-only-when-valid', pc, z3.Not(good))
            m2 = chk.prove('header/ok-value-is-header-value', pc, z3.Not(v_eq(val, hv)))
            if m is not None or m2 is not None:
                mm = m or m2
                case = header_case(mm, present, ascii_ok, parses, hv, vmax)
                r = replay([case])[0]
                want_ok = bool(mm.eval(good, model_completion=True))
                bad = (r.get('ok') is not None) != want_ok or (want_ok and r.get('ok') != case['expect_version'])
                chk.counterexample(f'header policy: {case["header"]!r} max={case["max"]} -> {r}', case, bad, role='header:ok')
        else:
            e = ex.payload(res)
            st = httpmodel.status_of(ex, e)
            m = chk.prove('header/err-only-when-invalid', pc, good)
            m2 = chk.prove('header/err-is-4xx', pc, z3.BoolVal(not (400 <= st <= 499)))
            if m is not None or m2 is not None:
                mm = m or m2
                case = header_case(mm, present, ascii_ok, parses, hv, vmax)
                r = replay([case])[0]
                want_ok = bool(mm.eval(good, model_completion=True))
                bad = (r.get('ok') is not None) != want_ok or (r.get('err') is not None and not (400 <= r['err'] <= 499))
                chk.counterexample(f'header policy: {case["header"]!r} max={case["max"]} -> {r}', case, bad, role='header:err')
    # vacuity + translator validation: every class of header reaches its outcome natively
    for name, cond in [('ok', good), ('missing', z3.Not(present)), ('non-ascii', z3.And(present, z3.Not(ascii_ok))),
                       ('unparsable', z3.And(present, ascii_ok, z3.Not(parses))),
                       ('too-new', z3.And(present, ascii_ok, parses, v_lt(vmax, hv)))]:
        pcs = [z3.And(*pc) for pc, _ in outs]
        m = chk.witness(f'header/reach-{name}', [cond] + hv.wf() + vmax.wf(), z3.Or(pcs))
        case = header_case(m, present, ascii_ok, parses, hv, vmax)
        r = replay([case])[0]
        chk.replayed += 1
        want_ok = name == 'ok'
        if (r.get('ok') is not None) != want_ok or (not want_ok and not (400 <= r.get('err', 0) <= 499)):
            # a concrete header of a class the statement speaks about, answered otherwise by the real policy
            chk.counterexample(f'header policy on a {name} version header: {case["header"]!r} max={case["max"]} -> {r}', case, True, role='header:' + name)
            continue
        chk.samples.append({'header': case['header'], 'max': case['max'], 'native': r})
    if n_ok == 0: raise Inconclusive('header policy: Ok path unreachable')


def registration_conflicts(chk, ex):
    """HttpRouter::insert on one method and path with three version ranges, every order: the new registration is refused iff its range
    shares a version with one already accepted (the loop over existing handlers, not only the pairwise predicate)"""
    import itertools
    from mirsym.runner import parallel
    from props import router_run, routerlib as RL
    saved = ex.models
    ex.models = RL.ROUTER_MODELS + ex.models
    try:
        R = RL.Router(chk, ex)
        tables = [[('GET', '/a', 'FromUntil'), ('GET', '/a', 'FromUntil'), ('GET', '/a', 'FromUntil')], [('GET', '/a', 'Until'), ('GET', '/a', 'FromUntil'), ('GET', '/a', 'From')],
                  [('GET', '/a', 'From'), ('GET', '/a', 'FromUntil'), ('GET', '/a', 'All')]]
        n0 = len(chk.obligations)
        def task(chk, t):
            ti, spec = t
            router_run.TableRun(chk, ex, R, spec, 'C02', 1, f'registration/t{ti}').run(list(itertools.permutations(range(3))))
        extras, incon = parallel(chk, list(enumerate(tables)), task)
        if incon: raise Inconclusive(f'registration tables inconclusive: {incon[0]}')
        if len(chk.obligations) - n0 < 30: raise Inconclusive('vacuity: too few registration obligations')
    finally:
        ex.models = saved


def entry_point(chk, ex):
    """server.rs::http_request_handle with the header policy: a handler runs only for a usable header, and it is an endpoint whose
    range contains exactly the header's version; a missing / non-ASCII / unparsable / too-new version is a 4xx without any handler"""
    from props import glue as G
    from props.routerlib import Endpoint
    saved = ex.models
    ex.models = G.load_models() + ex.models
    try:
        g = G.Glue(chk, ex)
        eps = [Endpoint(0, 'GET', '/a', 'Until'), Endpoint(1, 'GET', '/a', 'From'), Endpoint(2, 'PUT', '/a', 'FromUntil'), Endpoint(3, 'OPTIONS', '/a', 'From')]
        ok_resp = lambda ex: ex.ok(httpmodel.Response(200, httpmodel.HMap(), Opaque('body', 'out')))
        seen = set()
        def check(chk, ex, pc, r, ctx):
            good, v = G.resolved_version(ctx)
            if r['calls']:
                seen.add('handler')
                hid = r['calls'][0][0]
                e = next(x for x in ctx['eps'] if x.id == hid)
                m = chk.prove(f'{ctx["tag"]}/handler-only-at-the-header-version', pc, z3.Or(z3.Not(good), z3.Not(zb(e.contains(v))), z3.BoolVal(len(r['calls']) != 1)), extra=ctx['assume'])
                what = f'handler {hid} ran although the version header is unusable or names a version outside its range'
            else:
                seen.add('refused')
                out = r['out']
                st = httpmodel.status_of(ex, ex.payload(out).fields[ex.payload(out).discr][0].v) if out.discr == 1 and ex.variant_name(ex.payload(out)) == 'Dropshot' else None
                m = chk.prove(f'{ctx["tag"]}/unusable-version-is-a-4xx-without-handler', pc,
                              z3.And(z3.Not(good), z3.BoolVal(not (out.discr == 1 and isinstance(st, int) and 400 <= st <= 499))), extra=ctx['assume'])
                what = f'unusable version header answered {out}'
                # served at every version of its range: when the header is usable and some endpoint's method, path and range match, a handler runs
                cands = [G.matched_endpoint(ctx, e) for e in ctx['eps']]
                any_match = z3.Or([zb(c_) for c_ in cands if c_ is not False] or [z3.BoolVal(False)])
                m2 = chk.prove(f'{ctx["tag"]}/served-at-every-version-of-its-range', pc, any_match, extra=ctx['assume'])
                if m2 is not None:
                    vcase = G.native_case(m2, ctx)
                    rq0 = vcase['requests'][0]
                    rcase = {'op': 'router', 'endpoints': vcase['endpoints'], 'order': list(range(len(ctx['eps']))),
                             'requests': [{'method': rq0['method'], 'path': rq0['path'], 'version': rq0['header']}]}
                    nat = replay([rcase])[0]
                    res = (nat.get('results') or [{}])[0]
                    all_reg = len(nat.get('registered', [])) == len(ctx['eps']) and all(x['ok'] for x in nat['registered'])
                    chk.counterexample(f'no handler ran although an endpoint is declared for the request\'s method, path and version: {rq0} on '
                                       f'{[(e["method"], e["path"], e["versions"]) for e in vcase["endpoints"]]} -> real router {res}', rcase, all_reg and 'ok' not in res, role='entry-point:unserved')
            if m is not None:
                case, nat, same = G.native_agrees(chk, ex, m, ctx, r)
                chk.counterexample(f'{what}: {case["requests"][0]} on {[(e["method"], e["path"], e["versions"]) for e in case["endpoints"]]} max {case["max"]} -> real server {nat}',
                                   case, same, role='entry-point')
        # the second table has no version-restricted endpoint at all: the header policy still applies to every request
        # third table: the same method on a path and on the wildcard below it, for ranges that may be disjoint (the wildcard also matches the bare path)
        for ti, table in enumerate((eps, [Endpoint(0, 'GET', '/a', 'All'), Endpoint(1, 'PUT', '/a/b', 'All')],
                                    [Endpoint(0, 'GET', '/a', 'Until'), Endpoint(1, 'GET', '/a/{r:.*}', 'From')])):
            for mode in ('CancelOnDisconnect', 'Detached'):
                seen.discard('handler')
                g.run(table, 'dynamic', mode, ok_resp, check, f'entry{ti}')
                if 'handler' not in seen: raise Inconclusive(f'vacuity: no handler ever runs on entry-point table {ti}')
        if seen != {'handler', 'refused'}: raise Inconclusive(f'vacuity: entry point outcomes {seen}')
    finally:
        ex.models = saved


def header_case(m, present, ascii_ok, parses, hv, vmax):
    c = concretise(m, [hv, vmax])
    ev = lambda t: bool(m.eval(t, model_completion=True))
    if not ev(present): header = None
    elif not ev(ascii_ok): header = 'non-ascii'
    elif not ev(parses): header = 'not-a-version'
    else: header = c['hdr_version']
    return {'op': 'version_header', 'header': header, 'max': c['max_version'], 'expect_version': c['hdr_version']}

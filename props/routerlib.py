"""Shared machinery for the router properties (C01, C02, C04, C06): symbolic route tables,
execution of HttpRouter::{new,insert,lookup_route,endpoints} from MIR, and the independent
reference matcher used as the oracle."""
import itertools
import re

import z3

from mirsym import mir
from mirsym.core import (Adt, Cell, Opaque, Panic, PMap, PVec, Ref, SymStr, Tup, Unsupported, dv, lit, StrSort, zand, zor,
                         znot, zbool)
from mirsym.models import BASE_MODELS, It
from props import httpmodel, vermodel
from props.vermodel import V, v_eq, v_ge, v_le, v_lt

KINDS = ['All', 'From', 'FromUntil', 'Until']


# ---------------------------------------------------------------------------------- templates
def parse_template(path):
    """-> list of ('lit', s) | ('var', name) | ('wild', name); mirrors the documented syntax"""
    segs = [s for s in path.split('/')[1:]]
    if segs and segs[-1] == '': segs.pop()
    out = []
    for s in segs:
        if s.startswith('{') and s.endswith('}'):
            inner = s[1:-1]
            if inner.endswith(':.*'): out.append(('wild', inner[:-3]))
            else: out.append(('var', inner))
        else:
            out.append(('lit', s))
    return out


class Endpoint:
    """one symbolic endpoint: concrete method + template, symbolic version range of a fixed kind"""
    def __init__(self, idx, method, path, kind, max_bytes=None, visible=True):
        self.idx, self.method, self.path, self.kind = idx, method, path, kind
        self.id = f'e{idx}'
        self.a, self.b = V(f'e{idx}_a'), V(f'e{idx}_b')
        self.tmpl = parse_template(path)
        self.max_bytes, self.visible = max_bytes, visible

    def assumptions(self):
        out = []
        if self.kind in ('From', 'FromUntil'): out += self.a.wf()
        if self.kind in ('Until', 'FromUntil'): out += self.b.wf()
        if self.kind == 'FromUntil': out.append(v_le(self.a, self.b))
        return out

    def versions(self):
        return [v for v in ((self.a,) if self.kind == 'From' else (self.b,) if self.kind == 'Until' else
                            (self.a, self.b) if self.kind == 'FromUntil' else ())]

    def contains(self, v):
        """interval semantics of the statement (v: V or None = unversioned request)"""
        if v is None or self.kind == 'All': return True
        if self.kind == 'From': return v_ge(v, self.a)
        if self.kind == 'Until': return v_lt(v, self.b)
        return zand(v_ge(v, self.a), zor(v_lt(v, self.b), zand(v_eq(v, self.b), v_eq(self.a, self.b))))

    def mk(self, ex):
        if self.kind == 'All': vs = ex.mk_enum('ApiEndpointVersions', 'All')
        elif self.kind == 'From': vs = ex.mk_enum('ApiEndpointVersions', 'From', [self.a.adt()])
        elif self.kind == 'Until': vs = ex.mk_enum('ApiEndpointVersions', 'Until', [self.b.adt()])
        else:
            vs = ex.mk_enum('ApiEndpointVersions', 'FromUntil',
                            [ex.mk_struct('OrderedVersionPair', earliest=self.a.adt(), until=self.b.adt())])
        return ex.mk_struct(
            'ApiEndpoint', operation_id=self.id, handler=Ref(Cell(Opaque('handler', self.id))), method=Opaque('method', self.method),
            path=self.path, parameters=PVec(), body_content_type=ex.mk_enum('ApiEndpointBodyContentType', self.content_type(ex)),
            request_body_max_bytes=ex.none() if self.max_bytes is None else ex.some(self.max_bytes),
            response=Opaque('response'), error=ex.none(), summary=ex.none(), description=ex.none(), tags=PVec(),
            extension_mode=Opaque('ext'), visible=self.visible, deprecated=False, versions=vs)

    def content_type(self, ex):
        vs = ex.L.enums['ApiEndpointBodyContentType']
        return vs[self.idx % len(vs)]

    def json(self, c):
        vs = {'All': {'k': 'All'}, 'From': {'k': 'From', 'a': c.get(self.a.name)}, 'Until': {'k': 'Until', 'b': c.get(self.b.name)},
              'FromUntil': {'k': 'FromUntil', 'a': c.get(self.a.name), 'b': c.get(self.b.name)}}[self.kind]
        d = {'id': self.id, 'method': self.method, 'path': self.path, 'versions': vs}
        if self.max_bytes is not None and not z3.is_expr(self.max_bytes): d['max_bytes'] = self.max_bytes
        if not self.visible: d['visible'] = False
        return d


class Request:
    """symbolic request: k opaque segments, symbolic method choice, optional symbolic version"""
    def __init__(self, k, methods, versioned, tag='rq'):
        self.k = k
        self.segs = [SymStr(z3.Const(f'{tag}_s{i}', StrSort)) for i in range(k)]
        self.methods = methods                    # list of spellings the client may send
        self.mi = z3.Int(f'{tag}_method')
        self.v = V(f'{tag}_v') if versioned else None

    def assumptions(self):
        return [self.mi >= 0, self.mi < len(self.methods)] + (self.v.wf() if self.v else [])

    def method_is(self, name):
        """the request method equals `name` after upper-casing (HTTP methods are matched case-insensitively by the router)"""
        return zor(*[self.mi == i for i, m in enumerate(self.methods) if m.upper() == name.upper()])

    def concretise(self, model, c, lits):
        ev = lambda t: model.eval(t, model_completion=True)
        # opaque segments: equal to a literal -> that literal; otherwise fresh distinct names
        segs = []
        classes = {}
        for i, s in enumerate(self.segs):
            val = None
            for l in lits:
                if z3.is_true(ev(s.term == lit(l))): val = l
            if val is None:
                key = str(ev(s.term))
                val = classes.setdefault(key, f'zz{len(classes)}')
            segs.append(val)
        m = self.methods[ev(self.mi).as_long()]
        return {'method': m, 'path': '/' + '/'.join(segs), 'version': c.get(self.v.name) if self.v else None}, segs


# ---------------------------------------------------------------------------------- reference matcher (oracle)
def template_match(tmpl, segs):
    """condition under which a request's decoded segments match a template; None if impossible"""
    n, k = len(tmpl), len(segs)
    wild = bool(tmpl) and tmpl[-1][0] == 'wild'
    if wild:
        if k < n - 1: return False
    elif k != n:
        return False
    conds = []
    for (kind, name), s in zip(tmpl, segs):
        if kind == 'lit': conds.append(s.term == lit(name))
    return zand(*conds)


def expected_vars(tmpl, segs):
    """{var: ('one', seg) | ('many', [segs])}"""
    out = {}
    for i, (kind, name) in enumerate(tmpl):
        if kind == 'var': out[name] = ('one', segs[i])
        elif kind == 'wild': out[name] = ('many', segs[i:])
    return out


def structural_conflict(t1, t2):
    """two templates that cannot coexist in one router whatever their methods/versions (statement of C02):
    different kinds of segment, or differently named variables, at the same position"""
    for (k1, n1), (k2, n2) in zip(t1, t2):
        if k1 != k2: return True
        if k1 in ('var', 'wild') and n1 != n2: return True
        if k1 == 'lit' and n1 != n2: return False        # diverge here: later positions are unrelated
    return False


def self_conflict(t):
    names = [n for k, n in t if k in ('var', 'wild')]
    if len(names) != len(set(names)): return True
    for i, (k, n) in enumerate(t):
        if k == 'wild' and i != len(t) - 1: return True
    return False


def shares_request_path(t1, t2):
    """some request path matches both templates (given no structural conflict)"""
    if t1 == t2: return True
    a, b = (t1, t2) if len(t1) < len(t2) else (t2, t1)
    return len(b) == len(a) + 1 and b[-1][0] == 'wild' and all(x == y for x, y in zip(a, b))


# ---------------------------------------------------------------------------------- execution
def m_method_as_str(ex, args, callee):
    m = dv(args[0])
    if isinstance(m, Opaque) and m.tag == 'method': return m.payload
    if isinstance(m, Opaque) and m.tag == 'const' and isinstance(m.payload, str) and re.search(r'Method::[A-Z]+$', m.payload): return m.payload.rsplit('::', 1)[1]
    if isinstance(m, Opaque) and m.tag == 'reqmethod':
        rq = m.payload
        return rq.methods[ex.branch([rq.mi == i for i in range(len(rq.methods))])]
    raise Unsupported(f'Method::as_str of {m!r}')


def m_method_eq(ex, args, callee):
    """http::Method equality is exact (case-sensitive) on the method token"""
    names = []
    for x in args[:2]:
        x = dv(x)
        if isinstance(x, Opaque) and x.tag == 'reqmethod': names.append(x.payload)
        else: names.append(m_method_as_str(ex, [x], callee))
    a, b = names
    if isinstance(a, str) and isinstance(b, str): return a == b
    rq, other = (a, b) if not isinstance(a, str) else (b, a)
    if isinstance(other, str): return zor(*[rq.mi == i for i, m_ in enumerate(rq.methods) if m_ == other])
    raise Unsupported('comparison of two symbolic methods')


def m_route_path_to_segments_guard(ex, args, callee):
    raise Unsupported('route_path_to_segments must run from MIR')


class Ctx:
    cur_segments = None
    into_response = None      # set by the C04 check: MIR name of HttpError::into_response


def m_input_path_to_segments(ex, args, callee):
    """assume/guarantee: C03 proves input_path_to_segments returns Err or Ok(decoded non-dot segments)"""
    if Ctx.cur_segments is None: return ex.err('<segment error>')
    return ex.ok(PVec([Cell(s) for s in Ctx.cur_segments]))


def m_add_header(ex, args, callee):
    e = dv(args[0])
    hc = ex.field(e, 'headers')
    if not (isinstance(hc.v, Adt) and hc.v.ty == 'Option' and hc.v.discr == 1):
        hc.v = ex.some(Ref(Cell(httpmodel.HMap())))
    hm = dv(ex.payload(hc.v))
    hm.entries.append((httpmodel.hname(args[1]), httpmodel.HV(dv(args[2]))))
    return ex.ok(args[0])


def m_str_split_char(ex, args, callee):
    s = dv(args[0])
    if not isinstance(s, str): raise Unsupported('split on symbolic str')
    return It('list', s.split(args[1]))


def m_join(ex, args, callee):
    v, sep = dv(args[0]), dv(args[1])
    return sep.join(dv(c.v) for c in v.items)


def m_fmt_format(ex, args, callee):
    """formatting is never the subject, except HttpRouterIter::path (C06): decode the template"""
    a = args[0]
    if isinstance(a, Opaque) and a.tag == 'fmtargs' and a.payload is not None:
        return a.payload
    return SymStr(z3.FreshConst(StrSort, 'fmt'))


ROUTER_MODELS = [
    (r'Method::as_str$', m_method_as_str), (r'<(http::)?Method as ToString>::to_string$', m_method_as_str),
    (r'<&?(http::)?Method as PartialEq(<&?(http::)?Method>)?>::(eq|ne)$', lambda ex, a, c: m_method_eq(ex, a, c) if c.endswith('eq') else znot(zbool(m_method_eq(ex, a, c)))),
    (r'^(router::)?input_path_to_segments$', m_input_path_to_segments, True),
    (r'HeaderMap::reserve$|HeaderMap::<.*>::reserve$', lambda ex, a, c: Tup([])),
    (r'str>::split::<char>$|str>::split::<\'_, char>$', m_str_split_char),
    (r'chars$', lambda ex, a, c: It('list', list(dv(a[0])))),
    (r'HeaderMap::new$|HeaderMap::<.*>::new$', lambda ex, a, c: httpmodel.HMap()),
] + httpmodel.MODELS


def add_header_model(ex_models):
    return ex_models


class Router:
    def __init__(self, chk, ex):
        self.chk, self.ex = chk, ex
        f = ex.fns
        self.F_new = mir.find(f, r'router::<impl at [^>]*>::new$', unique=False)
        self.F_new = [n for n in self.F_new if re.search(r'-> HttpRouter<', f[n].text.split('\n')[0])][0]
        self.F_insert = mir.find(f, r'router::<impl at [^>]*>::insert$')
        self.F_lookup = mir.find(f, r'router::<impl at [^>]*>::lookup_route$')
        self.F_endpoints = mir.find(f, r'router::<impl at [^>]*>::endpoints$')
        self.F_has_versioned = mir.find(f, r'router::<impl at [^>]*>::has_versioned_routes$')
        self.F_iter_next = [n for n in mir.find(f, r'router::<impl at [^>]*>::next$', unique=False) if 'HttpRouterIter' in f[n].locals.get('_1', '')][0]
        # pure predicates over version ranges: merged into one term per call (state merging)
        ex.summarize |= {mir.find(f, r'api_description::<impl at [^>]*>::matches$'),
                         mir.find(f, r'api_description::<impl at [^>]*>::overlaps_with$')}
        for n in mir.find(f, r'api_description::<impl at [^>]*>::eq$', unique=False):
            if 'ApiEndpointVersions' in f[n].locals.get('_1', ''): ex.summarize.add(n)

    def build(self, ex, endpoints, order):
        """run new() + insert() in `order`; returns (router cell, index of the first rejected insert or None, panic msg)"""
        rc = Cell(ex.call_fn(self.F_new, []))
        for pos, i in enumerate(order):
            try:
                ex.call_fn(self.F_insert, [Ref(rc), endpoints[i].mk(ex)])
            except Panic as p:
                return rc, pos, p.msg
        return rc, None, None

    def lookup(self, ex, rc, rq, bad_path=False):
        Ctx.cur_segments = None if bad_path else rq.segs
        method = Opaque('reqmethod', rq)
        ver = ex.some(Ref(Cell(rq.v.adt()))) if rq.v else ex.none()
        # InputPath(&str): the raw request path is an opaque text of any length (its segmentation is Ctx.cur_segments)
        path = ex.mk_struct('InputPath', **{'0': Ref(Cell(SymStr(z3.Const('request_path_text', StrSort))))})
        return ex.call_fn(self.F_lookup, [Ref(rc), Ref(Cell(method)), path, ver])


def describe_result(ex, res):
    """-> ('ok', op_id, variables PMap, max_bytes, content_type, handler) | ('err', status, allow list, err adt)"""
    if res.discr == 0:
        lr = ex.payload(res)
        md = ex.field(lr, 'endpoint').v
        return ('ok', ex.field(md, 'operation_id').v, ex.field(md, 'variables').v, ex.field(md, 'request_body_max_bytes').v,
                ex.field(md, 'body_content_type').v, dv(ex.field(lr, 'handler').v))
    e = ex.payload(res)
    st = httpmodel.status_of(ex, e)
    h = ex.field(e, 'headers').v
    allow = []
    if isinstance(h, Adt) and h.discr == 1:
        hm = dv(ex.payload(h))
        allow = [dv(v.content) for n, v in hm.entries if n == 'allow']
        other = [n for n, v in hm.entries if n != 'allow']
        if other: allow.append(('other-headers', other))
    sent = None
    if Ctx.into_response is not None:
        # what the client sees: the error turned into its response (HttpError::into_response from MIR; it consumes the error)
        resp = ex.call_fn(Ctx.into_response, [e, 'request-id-of-this-request'])
        sent = [dv(v.content) for n, v in resp.headers.entries if n == 'allow'] if hasattr(resp, 'headers') else ['not-a-response']
    return ('err', st, allow, e, sent)

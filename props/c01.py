"""C01 — dispatch to the one endpoint registered for the request.

The router itself (registration + lookup, every order, symbolic version bounds and request) is decided in
props/router_run.py.  On top of it, the request entry point server.rs::http_request_handle is executed (props/glue.py)
on a versioned server: the version the policy resolves from the header is the version the request is routed at, so
the handler that runs is exactly the endpoint whose method, path and range match (method, path, resolved version),
and no handler runs when none matches.  Solver models are replayed on a real server (replay op versioned_server)."""
import z3

from mirsym.core import Opaque, zbool, znot, zor
from mirsym.runner import Inconclusive
from props import router_run


def entry_point(chk):
    from props import glue as G, httpmodel
    from props.routerlib import Endpoint
    ex = router_run.G['ex']
    saved = ex.models
    ex.models = G.load_models() + httpmodel.MODELS + ex.models
    try:
        g = G.Glue(chk, ex)
        tables = [[Endpoint(0, 'GET', '/a', 'Until'), Endpoint(1, 'GET', '/a', 'From'), Endpoint(2, 'PUT', '/a', 'FromUntil')],
                  [Endpoint(0, 'GET', '/a', 'FromUntil'), Endpoint(1, 'GET', '/a/b', 'All'), Endpoint(2, 'GET', '/a', 'FromUntil')]]
        ok_resp = lambda ex: ex.ok(httpmodel.Response(200, httpmodel.HMap(), Opaque('body', 'out')))
        seen = set()
        def check(chk, ex, pc, r, ctx):
            eps, tag = ctx['eps'], ctx['tag']
            if r['calls']:
                seen.add('handler')
                hid = r['calls'][0][0]
                e = next(x for x in eps if x.id == hid)
                bad = z3.Or(znot(zbool(G.matched_endpoint(ctx, e))), z3.BoolVal(len(r['calls']) != 1))
                m = chk.prove(f'{tag}/the-handler-is-the-endpoint-matching-method-path-and-resolved-version', pc, bad, extra=ctx['assume'])
                what = f'handler {hid} ran for a request it does not match at the resolved version'
            else:
                seen.add('none')
                m = chk.prove(f'{tag}/no-handler-only-if-nothing-matches', pc, zbool(zor(*[G.matched_endpoint(ctx, e) for e in eps])), extra=ctx['assume'])
                what = 'a request matching a registered endpoint at the resolved version reached no handler'
            if m is not None:
                case, nat, same = G.native_agrees(chk, ex, m, ctx, r)
                chk.counterexample(f'{what}: {case["requests"][0]} on {[(e["method"], e["path"], e["versions"]) for e in case["endpoints"]]} '
                                   f'max {case["max"]} -> real server {nat}', case, same, role='entry-point')
        for ti, table in enumerate(tables):
            for mode in ('CancelOnDisconnect', 'Detached'):
                seen.clear()
                g.run(table, 'dynamic', mode, ok_resp, check, f'entry{ti}')
                if seen != {'handler', 'none'}: raise Inconclusive(f'vacuity: entry point outcomes {seen} on table {ti}')
    finally:
        ex.models = saved


def run(tier, replay_file=None):
    return router_run.run('C01', tier, replay_file, before_finish=entry_point)

"""C13 — Error responses follow one contract and never leak internal detail."""
import itertools
import re

import z3

from mirsym import mir
from mirsym.core import Adt, Cell, Opaque, Panic, PVec, Ref, SymStr, Tup, Unsupported, dv, lit, StrSort, is_sym
from mirsym.models import BASE_MODELS, val_eq
from mirsym.runner import Check, Inconclusive, replay
from props import httpmodel
from props.httpmodel import HMap, HV, JsonText, Response, hv_ok


def sstr(name): return SymStr(z3.Const(name, StrSort))


def occurs(x, term, seen=None):
    """does the z3 constant `term` occur anywhere inside the (Python/z3) value x"""
    seen = seen if seen is not None else set()
    if id(x) in seen: return False
    seen.add(id(x))
    if isinstance(x, SymStr): return x.term.eq(term)
    if is_sym(x):
        return any(c.eq(term) for c in _consts(x))
    if isinstance(x, (str, int, bool, float)) or x is None: return False
    if isinstance(x, Cell): return occurs(x.v, term, seen)
    if isinstance(x, Ref): return occurs(x.cell, term, seen)
    if isinstance(x, Adt): return any(occurs(c, term, seen) for fl in x.fields.values() if isinstance(fl, list) for c in fl)
    if isinstance(x, Tup) or isinstance(x, PVec): return any(occurs(c, term, seen) for c in x.items)
    if isinstance(x, (list, tuple)): return any(occurs(c, term, seen) for c in x)
    if isinstance(x, dict): return any(occurs(c, term, seen) for c in x.values())
    if isinstance(x, Opaque): return occurs(x.payload, term, seen)
    if isinstance(x, HMap): return any(occurs(v, term, seen) for _, v in x.entries)
    if isinstance(x, HV): return occurs(x.content, term, seen)
    if isinstance(x, JsonText): return occurs(x.value, term, seen)
    if isinstance(x, Response): return occurs(x.headers, term, seen) or occurs(x.body, term, seen) or occurs(x.status, term, seen)
    raise Unsupported(f'occurs: unknown value {type(x)}')


def _consts(e):
    out, todo = [], [e]
    while todo:
        t = todo.pop()
        if z3.is_const(t) and t.decl().kind() == z3.Z3_OP_UNINTERPRETED: out.append(t)
        todo += t.children()
    return out


CONSTRUCTORS = ['for_client_error', 'for_internal_error', 'for_unavail', 'for_bad_request', 'for_client_error_with_status', 'for_not_found']


def run(tier, replay_file=None):
    chk = Check('C13', tier)
    ex = chk.load(httpmodel.MODELS + BASE_MODELS)
    ex.const_models.append(httpmodel.const_model)
    f = ex.fns
    F = {n: mir.find(f, r'error::<impl at [^>]*>::' + n + '$') for n in CONSTRUCTORS + ['into_response', 'add_header', 'with_header']}
    F_hinto = [n for n in mir.find(f, r'handler::<impl at [^>]*>::into_response$', unique=False) if 'HandlerError' in f[n].locals.get('_1', '')][0]
    F_hstatus = [n for n in mir.find(f, r'handler::<impl at [^>]*>::status_code$', unique=False) if 'HandlerError' in f[n].locals.get('_1', '')][0]
    tbl = httpmodel.status_table()
    reason = {c: r for c, r in tbl.values()}
    chk.bounds = {'status': 'every 4xx value of ClientErrorStatusCode as a symbolic 16-bit value; fixed 5xx constants of the other constructors',
                  'strings': 'messages, error code, request id, header values: distinct opaque strings (any content)',
                  'attached_headers': '0..2 via add_header / with_header, names from {allow, x-custom}, values opaque with symbolic validity',
                  'status_refinement': 'from_u16 / from_status / as_client_error over all 65536 u16 values (symbolic)'}
    chk.assumptions = ['http crate: StatusCode::from_u16 accepts 100..=999, is_client_error/is_server_error are the 4xx/5xx ranges, canonical_reason is '
                       'Some exactly for the codes listed in http/src/status.rs (table read from the registry source)',
                       'HeaderMap/HeaderValue/response::Builder implement their documentation (props/httpmodel.py)',
                       'serde_json::to_string_pretty renders the value it is given (kept as an uninterpreted term)',
                       'the request id handed to into_response is a legal header value (the server generates UUIDs)',
                       'request-id uniqueness (Uuid::new_v4) and stamping over request sequences are outside this check']
    rid, msg, internal, code_s = sstr('request_id'), sstr('message'), sstr('internal_message'), sstr('error_code')
    SYMS.update(msg=msg, code=code_s, internal=internal)
    st = z3.BitVec('status', 16)
    hvals = [sstr('hdr_value0'), sstr('hdr_value1')]
    distinct = [z3.Distinct(rid.term, msg.term, internal.term, code_s.term, hvals[0].term, hvals[1].term), hv_ok(rid.term)]

    def mk_client_status(ex):
        return Adt('ClientErrorStatusCode', 0, {None: [Cell(st)]})

    def build(ex, ctor, has_code):
        code = ex.some(code_s) if has_code else ex.none()
        if ctor == 'for_client_error': return ex.call_fn(F[ctor], [code, mk_client_status(ex), msg]), msg, msg, st, code
        if ctor == 'for_internal_error': return ex.call_fn(F[ctor], [internal]), reason[500], internal, 500, ex.some('Internal')
        if ctor == 'for_unavail': return ex.call_fn(F[ctor], [code, internal]), reason[503], internal, 503, code
        if ctor == 'for_bad_request': return ex.call_fn(F[ctor], [code, msg]), msg, msg, 400, code
        if ctor == 'for_client_error_with_status': return ex.call_fn(F[ctor], [code, mk_client_status(ex)]), None, None, st, code
        if ctor == 'for_not_found': return ex.call_fn(F[ctor], [code, internal]), reason[404], internal, 404, code
        if ctor == 'struct_literal':
            # the fields of HttpError are public: any status, any (also empty) external message, any internal message
            e = ex.mk_struct('HttpError', status_code=Adt('ErrorStatusCode', 0, {None: [Cell(st)]}), error_code=code, external_message=msg, internal_message=internal, headers=ex.none())
            return e, msg, internal, st, code
        raise Unsupported(ctor)

    HEADER_PLANS = [(), (('add', 'allow'),), (('with', 'x-custom'),), (('add', 'allow'), ('add', 'allow')), (('add', 'x-custom'), ('with', 'allow')),
                    (('with', 'x-custom'), ('with', 'x-custom')), (('add', 'allow'), ('with', 'allow'))]
    n_resp = 0
    for ctor in CONSTRUCTORS + ['struct_literal']:
        for has_code in ((False, True) if ctor != 'for_internal_error' else (False,)):
            for plan in (HEADER_PLANS if tier == 'thorough' or ctor in ('for_client_error', 'for_not_found') else HEADER_PLANS[:2]):
                base = distinct + ([z3.UGE(st, 400), z3.ULE(st, 499)] if 'client_error' in ctor and ctor != 'for_bad_request' or ctor == 'for_client_error_with_status' else [])
                if ctor == 'struct_literal': base = distinct + [z3.UGE(st, 400), z3.ULE(st, 599)]
                def h(ex):
                    e, ext, intl, status, code = build(ex, ctor, has_code)
                    ec = Cell(e)
                    attached = []
                    for i, (how, name) in enumerate(plan):
                        if how == 'add':
                            r = ex.call_fn(F['add_header'], [Ref(ec), name, hvals[i]])
                            if r.discr == 0: attached.append((name, hvals[i]))
                        else:
                            r = ex.call_fn(F['with_header'], [ec.v, name, hvals[i]])
                            if r.discr == 0:
                                ec = Cell(ex.payload(r)); attached.append((name, hvals[i]))
                            else:
                                return ('discarded', None)     # documented: with_header consumes the error on failure
                    ext_actual = ex.field(ec.v, 'external_message').v
                    resp = ex.call_fn(F['into_response'], [ec.v, rid])
                    return ('resp', resp, ext, intl, status, code, attached, ext_actual)
                outs = ex.explore(h, base)
                chk.paths += len(outs)
                tag = f'{ctor}/{"code" if has_code else "nocode"}/{len(plan)}hdr'
                for pc, (k, r) in outs:
                    if k != 'ok':
                        m = chk.prove(f'{tag}/no-panic', pc, z3.BoolVal(True), extra=base)
                        report(chk, m, ctor, has_code, st, f'{ctor} / into_response panicked: {r}')
                        continue
                    if r[0] == 'discarded': continue
                    n_resp += 1
                    _, resp, ext, intl, status, code, attached, ext_actual = r
                    if not isinstance(resp, Response): raise Inconclusive(f'into_response returned {resp!r}')
                    bad = []
                    # status
                    bad.append(z3.BoolVal(True) if not (is_sym(resp.status) or isinstance(resp.status, int)) else
                               (resp.status != status if (is_sym(resp.status) or is_sym(status)) else z3.BoolVal(resp.status != status)))
                    # body
                    body = resp.body.payload if isinstance(resp.body, Opaque) and resp.body.tag == 'body' else None
                    if not isinstance(body, JsonText) or not isinstance(body.value, Adt) or body.value.ty != 'HttpErrorResponseBody':
                        bad.append(z3.BoolVal(True))
                    else:
                        b = body.value
                        bad.append(z3.Not(z3.BoolVal(True) if False else _eq(ex, ex.field(b, 'request_id').v, rid)))
                        if ext is not None:
                            bad.append(z3.Not(_eq(ex, ex.field(b, 'message').v, ext)))
                        else:
                            # for_client_error_with_status: the standard label of the code (or a generic one when there is none)
                            msgv = dv(ex.field(b, 'message').v)
                            if not isinstance(msgv, str): bad.append(z3.BoolVal(True))
                            else:
                                bad.append(z3.Or([z3.And(st == c_, z3.BoolVal(msgv != r_)) for c_, r_ in reason.items() if 400 <= c_ <= 499]))
                        ec_ = ex.field(b, 'error_code').v
                        bad.append(z3.BoolVal(ec_.discr != code.discr) if True else None)
                        if ec_.discr == 1 and code.discr == 1: bad.append(z3.Not(_eq(ex, ex.payload(ec_), ex.payload(code))))
                    # headers
                    hs = resp.headers.entries
                    ct = [v for n, v in hs if n == 'content-type']
                    xr = [v for n, v in hs if n == 'x-request-id']
                    bad.append(z3.BoolVal(len(ct) != 1 or dv(ct[0].content) != 'application/json'))
                    bad.append(z3.BoolVal(len(xr) != 1) if len(xr) != 1 else z3.Not(_eq(ex, xr[0].content, rid)))
                    others = [(n, v.content) for n, v in hs if n not in ('content-type', 'x-request-id')]
                    same = len(others) == len(attached) and all(n1 == n2 for (n1, _), (n2, _) in zip(others, attached))
                    bad.append(z3.BoolVal(not same))
                    if same:
                        for (_, v1), (_, v2) in zip(others, attached): bad.append(z3.Not(_eq(ex, v1, v2)))
                    m = chk.prove(f'{tag}/response-contract', pc, z3.Or(bad), extra=base)
                    if m is not None:
                        report(chk, m, ctor, has_code, st, f'response of {ctor} breaks the contract: {resp}', attached=plan)
                    # non-interference: the internal message never reaches the client
                    if intl is internal:
                        leak = occurs(resp, internal.term)
                        m = chk.prove(f'{tag}/internal-message-not-sent', pc, z3.BoolVal(leak), extra=base)
                        if m is not None:
                            report(chk, m, ctor, has_code, st, f'internal message appears in the response of {ctor}: {resp}', leak=True)
    if n_resp < 10: raise Inconclusive('vacuity: too few response paths')

    # ---- HandlerError: a handler-built error response gets the request id stamped (insert, not append)
    for pre in (None, 'other-id'):
        def h(ex):
            hm = HMap([('content-type', HV('application/json'))] + ([('x-request-id', HV(sstr('upstream_id')))] if pre else []))
            rsp = Response(418, hm, Opaque('body', 'user body'))
            he = ex.mk_enum('HandlerError', 'Handler', [internal, rsp])
            sc = ex.call_fn(F_hstatus, [Ref(Cell(he))])
            out = ex.call_fn(F_hinto, [he, rid])
            return sc, out
        base = distinct + [hv_ok(rid.term)]
        outs = ex.explore(h, base)
        chk.paths += len(outs)
        for pc, (k, r) in outs:
            if k != 'ok':
                m = chk.prove('handler-error/no-panic', pc, z3.BoolVal(True), extra=base)
                if m is not None: chk.mismatches.append(f'HandlerError::into_response panics for a valid request id: {r}')
                continue
            sc, out = r
            xr = [v for n, v in out.headers.entries if n == 'x-request-id']
            ok = isinstance(out, Response) and out.status == 418 and sc == 418 and len(xr) == 1 and isinstance(xr[0].content, SymStr) and xr[0].content.term.eq(rid.term) \
                and not occurs(out, internal.term)
            m = chk.prove(f'handler-error/request-id-stamped/{"pre-existing" if pre else "fresh"}', pc, z3.BoolVal(not ok), extra=base)
            if m is not None:
                chk.mismatches.append(f'HandlerError::Handler response not stamped with exactly the request id: {out} (no public-API replay)')

    stamping(chk, ex)
    request_ids(chk, ex)
    error_body_serialization(chk, ex)
    id_generator(chk, ex)
    status_types(chk, ex)
    kani_status_types(chk)
    witnesses(chk)
    return chk.finish('one obligation per (constructor, error-code presence, attached-header plan, execution path, clause)')


def stamping(chk, ex):
    """server.rs::http_request_handle: every successful response leaves with exactly one x-request-id equal to the id the handler was
    given, also when the handler's own response already carried such a header; handler errors are passed on unchanged"""
    from props import glue as G, routerlib as RL
    from props.routerlib import Endpoint
    saved_models = ex.models
    ex.models = G.load_models() + ex.models
    try:
        g = G.Glue(chk, ex)
        eps = [Endpoint(0, 'GET', '/a/{x}', 'All'), Endpoint(1, 'PUT', '/a/{x}', 'All')]
        upstream = sstr('upstream_request_id')
        results = {
            'plain': lambda ex: ex.ok(Response(200, HMap([('content-type', HV('application/json'))]), Opaque('body', 'out'))),
            'relayed-id': lambda ex: ex.ok(Response(200, HMap([('x-request-id', HV(upstream)), ('content-type', HV('text/plain'))]), Opaque('body', 'out'))),
            'two-relayed-ids': lambda ex: ex.ok(Response(204, HMap([('x-request-id', HV(upstream)), ('x-request-id', HV(sstr('second_upstream_id')))]), Opaque('body', None))),
            'handler-error': lambda ex: ex.err(ex.mk_enum('HandlerError', 'Dropshot', [Opaque('the-http-error')])),
        }
        for rname, rfn in results.items():
            for mode in ('CancelOnDisconnect', 'Detached'):
                def check(chk, ex, pc, r, ctx, rname=rname):
                    if not r['calls']: return
                    out = r['out']
                    if rname == 'handler-error':
                        good = out.discr == 1 and ex.variant_name(ex.payload(out)) == 'Dropshot' and ex.payload(ex.payload(out)).tag == 'the-http-error'
                    else:
                        good = out.discr == 0
                        if good:
                            resp = ex.payload(out)
                            ids = [v.content for n, v in resp.headers.entries if n == 'x-request-id']
                            rqctx_id = dv(ex.field(r['calls'][0][1], 'request_id').v)
                            good = len(ids) == 1 and isinstance(ids[0], SymStr) and ids[0].term.eq(ctx['rid'].term) and isinstance(rqctx_id, SymStr) and rqctx_id.term.eq(ctx['rid'].term)
                            others = [(n, v) for n, v in resp.headers.entries if n != 'x-request-id']
                            good = good and all(n == 'content-type' for n, v in others)
                    m = chk.prove(f'{ctx["tag"]}/{rname}/one-request-id-equal-to-the-handlers', pc, z3.BoolVal(not good), extra=ctx['assume'])
                    if m is not None:
                        case = {'op': 'request_id_relay'}
                        nat = replay([case])[0]
                        chk.counterexample(f'response leaves with the wrong x-request-id header(s) ({rname}, {ctx["mode"]}): {out} -> native {nat}', case,
                                           not nat.get('as_specified', False), role='stamping:' + rname)
                g.run(eps, 'unversioned', mode, rfn, check, 'stamping')
    finally:
        ex.models = saved_models


def id_generator(chk, ex):
    """server.rs::generate_request_id from MIR, called twice with arbitrarily many other draws in between: the two ids differ.
    Uuid::new_v4 returns pairwise distinct values (the UUID contract); process-global state the generator may keep (a OnceLock, an
    atomic counter) starts at an arbitrary value and moves on by an arbitrary amount between the two calls."""
    f = ex.fns
    F_gen = mir.find(f, r'(^|::)generate_request_id$')
    class S: draws = 0; once = {}; atomics = {}; phase = 0
    c0, gap = z3.BitVec('counter_before_first_request', 64), z3.BitVec('draws_in_between', 64)
    def m_new_v4(ex, a, c):
        k = S.draws; S.draws += 1
        return Opaque('uuid', ('v4', k))
    def fields_of(u):
        if u.payload[0] == 'v4':
            k = u.payload[1]
            return (z3.BitVec(f'uuid{k}_d1', 32), z3.BitVec(f'uuid{k}_d2', 16), z3.BitVec(f'uuid{k}_d3', 16), Opaque('uuid-d4', k))
        return u.payload[1:]
    def m_once(ex, a, c):
        key = str(dv(a[0]))
        if key not in S.once: S.once[key] = Cell(ex.call_closure(a[1], []) if not isinstance(dv(a[1]), Opaque) else m_new_v4(ex, [], ''))
        return Ref(S.once[key])
    def m_fetch_add(ex, a, c):
        key = str(dv(a[0]))
        cur = S.atomics.get(key, c0 if S.phase == 0 else None)
        if cur is None: cur = c0
        S.atomics[key] = cur + (dv(a[1]) if z3.is_expr(dv(a[1])) else z3.BitVecVal(dv(a[1]), 64))
        return cur
    def m_format(ex, a, c):
        # the text of a uuid is injective in the uuid
        from mirsym.models import render_fmt
        args_ = dv(a[0])
        us = []
        def walk(x, depth=0):
            x = dv(x)
            if isinstance(x, Opaque) and x.tag == 'uuid': us.append(x)
            elif isinstance(x, Opaque) and x.tag == 'fmtarg': walk(x.payload[1], depth + 1)
            elif isinstance(x, Opaque) and x.tag == 'fmtargs':
                for y in x.payload: walk(y, depth + 1)
            elif isinstance(x, (Adt,)) and depth < 6:
                for fl in x.fields.values():
                    for cell in (fl if isinstance(fl, list) else []): walk(cell.v, depth + 1)
            elif hasattr(x, 'items') and depth < 6:
                for cell in x.items: walk(cell.v if isinstance(cell, Cell) else cell, depth + 1)
            elif isinstance(x, Ref) and depth < 6: walk(x.cell.v, depth + 1)
        walk(args_)
        if len(us) == 1: return Opaque('text-of-uuid', us[0])
        r = render_fmt(ex, a[0])
        if r is None: raise Unsupported('format! of something that is not a single uuid')
        return r
    local = [(r'(^|::)new_v4$', m_new_v4), (r'OnceLock::<.*>::get_or_init::<', m_once), (r'^Atomic::<u64>::fetch_add$|AtomicU64::fetch_add$', m_fetch_add),
             (r'^Uuid::as_fields$|<impl Uuid>::as_fields$', lambda ex, a, c: Tup([Cell(x) for x in fields_of(dv(a[0]))])),
             (r'<impl Uuid>::from_fields$|^Uuid::from_fields$', lambda ex, a, c: Opaque('uuid', ('fields', dv(a[0]), dv(a[1]), dv(a[2]), dv(a[3])))),
             (r'^std::fmt::format$|^alloc::fmt::format$', m_format, True), (r'^must_use::<', lambda ex, a, c: a[0])]
    saved = ex.models
    ex.models = local + ex.models
    try:
        def h(ex):
            S.draws, S.once, S.atomics, S.phase = 0, {}, {}, 0
            id1 = ex.call_fn(F_gen, [])
            # other requests are served in between: fresh uuids are drawn, counters move on
            S.draws += 1000
            for k_ in list(S.atomics): S.atomics[k_] = S.atomics[k_] + gap
            S.phase = 1
            id2 = ex.call_fn(F_gen, [])
            return dv(id1), dv(id2)
        assume = [z3.BVAddNoOverflow(c0, gap + 2, False), z3.BVAddNoOverflow(gap, z3.BitVecVal(2, 64), False)]
        outs = ex.explore(h, assume)
        chk.paths += len(outs)
        if not outs: raise Inconclusive(f'vacuity: generate_request_id has no path; {ex.unsupported_paths[-2:]}')
        for pc, (k, r) in outs:
            if k != 'ok':
                m = chk.prove('id-generator/no-panic', pc, z3.BoolVal(True), extra=assume)
                if m is not None: chk.mismatches.append(f'generate_request_id panics: {r}')
                continue
            a, b_ = r
            def same_uuid(u, v):
                if not (isinstance(u, Opaque) and isinstance(v, Opaque) and u.tag == v.tag == 'uuid'): return z3.BoolVal(u is v)
                if u.payload[0] == 'v4' and v.payload[0] == 'v4': return z3.BoolVal(u.payload[1] == v.payload[1])
                if u.payload[0] != v.payload[0]: return z3.BoolVal(False)          # a drawn and a composed uuid: not comparable, treated as different draws
                conds = []
                for x, y in zip(u.payload[1:], v.payload[1:]):
                    if z3.is_expr(x) and z3.is_expr(y): conds.append(x == y)
                    else: conds.append(z3.BoolVal((x.payload == y.payload) if isinstance(x, Opaque) and isinstance(y, Opaque) else x is y))
                return z3.And(conds)
            ua = a.payload if isinstance(a, Opaque) and a.tag == 'text-of-uuid' else a
            ub = b_.payload if isinstance(b_, Opaque) and b_.tag == 'text-of-uuid' else b_
            m = chk.prove('id-generator/two-requests-any-distance-apart-get-different-ids', pc, same_uuid(ua, ub), extra=assume, prefer=[z3.ULE(gap, 140000)])
            if m is not None:
                g_ = m.eval(gap, model_completion=True).as_long() + 1
                if g_ > 200000:
                    chk.mismatches.append(f'request ids repeat at a distance of {g_} requests (too far to replay)'); continue
                case = {'op': 'request_id_many', 'n': g_ + 400}
                nat = replay([case])[0]
                chk.counterexample(f'generate_request_id returns the same id for two requests {g_} draws apart ({ua} / {ub}); {case["n"]} requests on a real server -> {nat}', case,
                                   not nat.get('all_distinct', False), role='id-generator')
    finally:
        ex.models = saved


def error_body_serialization(chk, ex):
    """the `#[derive(Serialize)]` code of HttpErrorResponseBody (generated inside dropshot, present in its MIR) run against a recording
    serializer: request_id and message are always written, error_code exactly when there is one - whatever its text"""
    f = ex.fns
    c = [n for n in f if re.search(r'^error::_::<impl at [^>]*>::serialize$', n) and 'HttpErrorResponseBody' in f[n].locals.get('_1', '')]
    if len(c) != 1: raise Inconclusive(f'cannot locate the derived Serialize impl of HttpErrorResponseBody: {c}')
    rid, msg, code_s = sstr('body_request_id'), sstr('body_message'), sstr('body_error_code')
    class Rec:
        def __init__(self): self.fields, self.skipped, self.ended = [], [], False
        def __repr__(self): return f'Rec({[k for k, _ in self.fields]})'
    local = [(r'^<__S as [\w:]*Serializer>::serialize_struct$', lambda ex, a, c: ex.ok(Rec())),
             (r'^<<__S as [\w:]*Serializer>::SerializeStruct as [\w:]*SerializeStruct>::serialize_field::<', lambda ex, a, c: (dv(a[0]).fields.append((dv(a[1]), dv(a[2]))), ex.ok(Tup([])))[1]),
             (r'^<<__S as [\w:]*Serializer>::SerializeStruct as [\w:]*SerializeStruct>::skip_field$', lambda ex, a, c: (dv(a[0]).skipped.append(dv(a[1])), ex.ok(Tup([])))[1]),
             (r'^<<__S as [\w:]*Serializer>::SerializeStruct as [\w:]*SerializeStruct>::end$', lambda ex, a, c: ex.ok(dv(a[0])))]
    saved = ex.models
    ex.models = local + ex.models
    try:
        for has_code in (False, True):
            def h(ex):
                body = ex.mk_struct('HttpErrorResponseBody', request_id=rid, error_code=ex.some(code_s) if has_code else ex.none(), message=msg)
                return ex.call_fn(c[0], [Ref(Cell(body)), Opaque('serializer')])
            outs = ex.explore(h, [])
            chk.paths += len(outs)
            if not outs: raise Inconclusive(f'vacuity: derived Serialize of HttpErrorResponseBody has no path; {ex.unsupported_paths[-2:]}')
            for pc, (k, r) in outs:
                tag = f'error-body-serialization/{"code" if has_code else "nocode"}'
                if k != 'ok' or r.discr != 0:
                    m = chk.prove(f'{tag}/serialises', pc, z3.BoolVal(True))
                    if m is not None: chk.mismatches.append(f'serialising the error body fails: {r}')
                    continue
                rec = dv(ex.payload(r))
                got = {k_: v for k_, v in rec.fields}
                def is_s(v, s_): return isinstance(dv(v), SymStr) and dv(v).term.eq(s_.term)
                good = is_s(got.get('request_id'), rid) and is_s(got.get('message'), msg) and set(got) == ({'request_id', 'message', 'error_code'} if has_code else {'request_id', 'message'})
                if good and has_code:
                    ec = dv(got['error_code'])
                    good = isinstance(ec, Adt) and ec.ty == 'Option' and ec.discr == 1 and is_s(ex.payload(ec), code_s)
                m = chk.prove(f'{tag}/every-field-written-code-iff-present', pc, z3.BoolVal(not good))
                if m is not None:
                    from mirsym.models import StrLen
                    empty = has_code and m.eval(StrLen(code_s.term), model_completion=True).as_long() == 0
                    case = {'op': 'http_error', 'ctor': 'for_bad_request', 'status': 400, 'code': ('' if empty else 'E_CODE') if has_code else None, 'message': 'external-msg', 'internal': 'internal-secret',
                            'headers': [], 'request_id': 'rid-123'}
                    nat = replay([case])[0]
                    chk.counterexample(f'the error body is serialised with fields {sorted(got)} (skipped {rec.skipped}) for an error {"with" if has_code else "without"} a code'
                                       f'{" (the empty string)" if empty else ""} -> native body {nat.get("body")}', case, not native_ok(case, nat), role='error-body')
    finally:
        ex.models = saved


def id_sequence_case():
    """two keep-alive connections, three pipelined requests each: a handler that reports the id it was given, a 404 and a 400 from the framework"""
    def req(method, target): return {'raw': f'{method} {target} HTTP/1.1\r\nHost: replay\r\nContent-Length: 0\r\n\r\n'}
    conn = [req('PUT', '/ectx/a?s=1&n=1&b=true&c=Red'), req('GET', '/no/such/path'), req('PUT', '/ectx/b?s=2&n=notanumber&b=true&c=Red'), req('PUT', '/ectx/c?s=3&n=3&b=false&c=Green')]
    return {'op': 'echo', 'connections': [conn, conn]}


def id_sequence_ok(nat):
    ids, ok = [], True
    for conn in nat.get('connections', []):
        if len(conn) != 4: ok = False
        for r in conn:
            hdr = r.get('x_request_id') or []
            ok = ok and len(hdr) == 1 and (r.get('body') or {}).get('request_id') == hdr[0]
            ids += hdr
    return ok and len(ids) == 8 and len(set(ids)) == 8


def request_ids(chk, ex):
    """server.rs::ServerRequestHandler (one per connection) + http_request_handle_wrap: every request handled through the same
    connection handler draws its own request id; that id is the one handed to request handling, stamped on the framework's error
    response and written into its body.  generate_request_id() is replaced by a generator of distinct ids (the Uuid::new_v4 contract)."""
    from props import glue as G, asyncmodel as AM
    f = ex.fns
    F_new = [n for n in mir.find(f, r'server::<impl at [^>]*>::new$', unique=False) if 'ServerRequestHandler' in (f[n].ret or '')][0]
    F_call = [n for n in mir.find(f, r'server::<impl at [^>]*>::call$', unique=False) if 'ServerRequestHandler' in f[n].locals.get('_1', '')][0]
    NREQ = 3 if chk.tier == 'quick' else 5
    class S: drawn = 0; seen = []; outcome = None
    gen = [sstr(f'generated_id_{k}') for k in range(2 * NREQ + 2)]
    ext, intl = sstr('external_message'), sstr('internal_message')
    def m_generate(ex, a, c):
        k = S.drawn; S.drawn += 1
        if k >= len(gen): raise Unsupported('more request ids drawn than expected')
        return gen[k]
    def m_handle(ex, a, c):
        # http_request_handle(server, request, &request_id, log, remote_addr) is checked on its own (stamping / C09 / C01): here it reports
        # the id it was called with and answers as told
        rid = dv(a[2]); S.seen.append(rid)
        if S.outcome == 'error':
            err = ex.mk_struct('HttpError', status_code=Adt('ErrorStatusCode', 0, {None: [Cell(z3.BitVecVal(404, 16))]}), error_code=ex.none(),
                               external_message=ext, internal_message=intl, headers=ex.none())
            return Opaque('readyfut', ex.err(ex.mk_enum('HandlerError', 'Dropshot', [err])))
        return Opaque('readyfut', ex.ok(Response(200, HMap([('x-request-id', HV(rid))]), Opaque('body', 'handler-output'))))
    local = [(r'^(server::)?generate_request_id$', m_generate, True), (r'^(server::)?http_request_handle::<', m_handle, True),
             (r'^Method::as_str$', lambda ex, a, c: 'GET'),
             (r'Instant::now$', lambda ex, a, c: Opaque('instant')), (r'Instant::elapsed$', lambda ex, a, c: Opaque('duration')), (r'Duration::as_micros$', lambda ex, a, c: Opaque('micros')),
             (r'^scopeguard::guard::|^guard::<', lambda ex, a, c: Opaque('scopeguard', a)), (r'ScopeGuard::<.*>::into_inner$', lambda ex, a, c: Tup([]))]
    from mirsym.models import StrLen
    # this part is about ids: the error the stub answers with has a non-empty external message (message handling is checked per constructor above)
    assume = [z3.Distinct(*[g.term for g in gen], ext.term, intl.term), StrLen(ext.term) > 0] + [hv_ok(g.term) for g in gen]
    saved = ex.models
    ex.models = local + G.MODELS + AM.MODELS + ex.models
    try:
        for outcome in ('error', 'success'):
            def h(ex):
                S.drawn, S.seen, S.outcome = 0, [], outcome
                server = ex.mk_struct_partial('DropshotState', config=ex.mk_struct_partial('ServerConfig', log_headers=PVec()), log=Opaque('log'))
                hd = ex.call_fn(F_new, [Ref(Cell(server)), Opaque('remote')])
                outs = []
                for i in range(NREQ):
                    req = httpmodel.Request(headers=HMap([]), method=Opaque('m'), uri=Opaque('uri'), body=Opaque('incoming'), version=Opaque('HTTP/1.1'))
                    fut = ex.call_fn(F_call, [Ref(Cell(hd)), req])
                    cell = AM.pinned(fut)
                    if isinstance(cell.v, Ref): cell = cell.v.cell
                    outs.append(AM.drive(ex, cell))
                return outs, list(S.seen)
            outs = ex.explore(h, assume)
            chk.paths += len(outs)
            n_ok = 0
            def rep(m, what):
                if m is None: return
                case = id_sequence_case()
                nat = replay([case])[0]
                chk.counterexample(f'{what} -> on a real server (two connections, four pipelined requests each): '
                                   f'{[[(r.get("status"), r.get("x_request_id"), (r.get("body") or {}).get("request_id")) for r in c] for c in nat.get("connections", [])]}',
                                   case, not id_sequence_ok(nat), role='request-id:' + outcome)
            for pc, (k, r) in outs:
                if k != 'ok':
                    m = chk.prove(f'request-id/{outcome}/no-panic', pc, z3.BoolVal(True), extra=assume); rep(m, f'request handling panicked: {r}'); continue
                n_ok += 1
                resps, seen = r
                good = len(seen) == NREQ and all(isinstance(s_, SymStr) for s_ in seen)
                m = chk.prove(f'request-id/{outcome}/every-request-is-handled-under-an-id', pc, z3.BoolVal(not good), extra=assume)
                rep(m, f'requests were handled under {seen}')
                if not good: continue
                pairs = [(i, j) for i in range(NREQ) for j in range(i + 1, NREQ)]
                m = chk.prove(f'request-id/{outcome}/ids-of-requests-on-one-connection-are-distinct', pc, z3.Or([seen[i].term == seen[j].term for i, j in pairs]), extra=assume)
                rep(m, f'two requests on one connection were handled under the same request id: {seen}')
                for i, (resp, rid_) in enumerate(zip(resps, seen)):
                    okr = resp.discr == 0 and isinstance(ex.payload(resp), Response)
                    if okr:
                        rr = ex.payload(resp)
                        ids = [v.content for n, v in rr.headers.entries if n == 'x-request-id']
                        okr = len(ids) == 1 and isinstance(ids[0], SymStr) and ids[0].term.eq(rid_.term)
                        if outcome == 'error':
                            body = body_json(ex, rr)
                            okr = okr and rr.status == 404 and body is not None and isinstance(dv(ex.field(body, 'request_id').v), SymStr) and dv(ex.field(body, 'request_id').v).term.eq(rid_.term) \
                                and not occurs(rr, intl.term)
                        else:
                            okr = okr and rr.status == 200
                    m = chk.prove(f'request-id/{outcome}/response-{i}-carries-its-own-id', pc, z3.BoolVal(not okr), extra=assume)
                    rep(m, f'response #{i} of the connection is {resp}; the request was handled under {rid_}')
            if not n_ok: raise Inconclusive(f'vacuity: request-id sequence ({outcome}) has no path; {ex.unsupported_paths[-2:]}')
    finally:
        ex.models = saved
    # the same on the wire
    case = id_sequence_case()
    nat = replay([case])[0]
    chk.replayed += 1
    if not id_sequence_ok(nat):
        chk.counterexample(f'request ids over two keep-alive connections: {[[(r.get("status"), r.get("x_request_id"), (r.get("body") or {}).get("request_id")) for r in c] for c in nat.get("connections", [])]}',
                           case, True, role='request-id:wire')


def body_json(ex, resp):
    """the HttpErrorResponseBody rendered into the response body, or None"""
    body = resp.body.payload if isinstance(resp.body, Opaque) and resp.body.tag == 'body' else None
    if isinstance(body, JsonText) and isinstance(body.value, Adt) and body.value.ty == 'HttpErrorResponseBody': return body.value
    return None


def _eq(ex, a, b):
    r = val_eq(ex, a, b)
    return z3.BoolVal(r) if isinstance(r, bool) else r


def status_types(chk, ex):
    """only 400-599 (resp. 400-499) can be represented; the stored code is the offered one"""
    f = ex.fns
    x = z3.BitVec('offered', 16)
    def fn_for(ty, name):
        import re
        c = [n for n in mir.find(f, r'error_status_code::<impl at [^>]*>::' + name + '$', unique=False) if re.match(r'^Result<(\w+::)*' + ty + ',', f[n].ret or '')]
        if len(c) != 1: raise Inconclusive(f'cannot locate {ty}::{name}: {c}')
        return c[0]
    for ty, lo, hi in (('ErrorStatusCode', 400, 599), ('ClientErrorStatusCode', 400, 499)):
        for name in ('from_u16', 'from_status'):
            F = fn_for(ty, name)
            base = [] if name == 'from_u16' else [z3.UGE(x, 100), z3.ULE(x, 999)]       # http::StatusCode's own range
            outs = ex.explore(lambda ex: ex.call_fn(F, [x]), base)
            chk.paths += len(outs)
            inr = z3.And(z3.UGE(x, lo), z3.ULE(x, hi))
            for pc, (k, r) in outs:
                if k != 'ok':
                    m = chk.prove(f'{ty}::{name}/no-panic', pc, z3.BoolVal(True), extra=base)
                    report_status(chk, m, x, ty, name, f'{ty}::{name} panicked: {r}'); continue
                if r.discr == 0:
                    v = ex.payload(r)
                    while isinstance(v, Adt): v = v.fields[None][0].v
                    m = chk.prove(f'{ty}::{name}/ok-only-in-range', pc, z3.Not(inr), extra=base)
                    if m is None: m = chk.prove(f'{ty}::{name}/stores-offered-code', pc, v != x, extra=base)
                else:
                    m = chk.prove(f'{ty}::{name}/err-only-out-of-range', pc, inr, extra=base)
                report_status(chk, m, x, ty, name, f'{ty}::{name} accepts/refuses the wrong codes')
    # as_client_error on every ErrorStatusCode
    F = mir.find(f, r'error_status_code::<impl at [^>]*>::as_client_error$')
    base = [z3.UGE(x, 400), z3.ULE(x, 599)]
    outs = ex.explore(lambda ex: ex.call_fn(F, [Ref(Cell(Adt('ErrorStatusCode', 0, {None: [Cell(x)]})))]), base)
    chk.paths += len(outs)
    for pc, (k, r) in outs:
        if k != 'ok': raise Inconclusive(f'as_client_error panicked: {r}')
        m = chk.prove('as_client_error/ok-iff-4xx', pc, z3.BoolVal(r.discr == 0) != z3.ULE(x, 499), extra=base)
        report_status(chk, m, x, 'ErrorStatusCode', 'as_client_error', 'as_client_error refines the wrong codes')


def kani_status_types(chk):
    """E2: Kani/CBMC decides the refinement types over all u16 on the compiled code of dropshot + the real http crate"""
    import os, re, shutil, subprocess, time
    from mirsym.runner import VERIF, BUILD, REPO
    kdir = os.path.join(VERIF, 'kani')
    shutil.copyfile(os.path.join(REPO, 'Cargo.lock'), os.path.join(kdir, 'Cargo.lock'))
    env = dict(os.environ, CARGO_NET_OFFLINE='true')
    env.pop('RUSTUP_TOOLCHAIN', None)
    t0 = time.time()
    import fcntl
    with open(os.path.join(BUILD, 'kani.lock'), 'w') as lf:
        fcntl.flock(lf, fcntl.LOCK_EX)
        r = subprocess.run(['cargo', 'kani', '--target-dir', os.path.join(BUILD, 'kani-target'), '--default-unwind', '4', '--output-format', 'terse'],
                           cwd=kdir, env=env, capture_output=True, text=True, timeout=1800)
    out = r.stdout + r.stderr
    res = dict(re.findall(r'Checking harness proofs::(\w+)\.\.\.[\s\S]*?VERIFICATION:- (SUCCESSFUL|FAILED)', out))
    expect = ['error_status_code_from_u16_all_values', 'client_error_status_code_from_u16_all_values', 'from_status_all_values']
    if any(h not in res for h in expect) or 'witness_reaches_ok_branch' not in res or 'ERROR' in re.findall(r'Status: (\w+)', out):
        raise Inconclusive('Kani run did not complete: ' + out[-800:])
    if res['witness_reaches_ok_branch'] != 'FAILED':
        raise Inconclusive('Kani vacuity witness did not fail (harness cannot reach the Ok branch)')
    chk.extra['kani'] = {'harnesses': res, 'wall_s': round(time.time() - t0, 1), 'bound': 'all 65536 u16 values, no loops (unwind 4 with unwinding assertions)',
                         'engine': 'Kani 0.68 / CBMC 6.11 (cadical) on the compiled code of dropshot and http'}
    for h in expect:
        chk.obligations.append({'name': 'kani/' + h, 'expect': 'unsat', 'result': 'unsat' if res[h] == 'SUCCESSFUL' else 'sat', 'time_s': 0})
        if res[h] != 'SUCCESSFUL':
            # concrete value: native scan of all u16 (replay of the solver's verdict)
            scan = replay([{'op': 'status_scan'}])[0]
            bad = scan.get('mismatches', [])
            if not bad:
                chk.mismatches.append(f'Kani harness {h} failed but no u16 value misbehaves natively')
                continue
            v = bad[0]
            chk.counterexample(f'Kani: {h} fails; e.g. status {v}: native {replay([{"op": "status_code", "value": v}])[0]}',
                               {'op': 'status_code', 'value': v}, True, role='status:kani:' + h)


def report_status(chk, m, x, ty, name, what):
    if m is None: return
    v = m.eval(x, model_completion=True).as_long()
    case = {'op': 'status_code', 'value': v}
    nat = replay([case])[0]
    lo, hi = (400, 599) if ty == 'ErrorStatusCode' else (400, 499)
    key = {'ErrorStatusCode': 'error', 'ClientErrorStatusCode': 'client'}[ty]
    want = lo <= v <= hi
    got = nat[key + ('_as_client' if name == 'as_client_error' else '')]
    if name == 'as_client_error': want = 400 <= v <= 499
    chk.counterexample(f'{what}: {ty}::{name}({v}) -> native {nat}', case, got != want, role=f'status:{ty}:{name}')


SYMS = {}


def report(chk, m, ctor, has_code, st, what, attached=(), leak=False):
    if m is None: return
    from mirsym.models import StrLen
    v = m.eval(st, model_completion=True).as_long()
    case = {'op': 'http_error', 'ctor': ctor, 'status': v, 'code': 'E_CODE' if has_code else None, 'message': 'external-msg',
            'internal': 'internal-secret', 'headers': [[n, f'hv{i}', how] for i, (how, n) in enumerate(attached)], 'request_id': 'rid-123'}
    # strings the model makes empty are empty in the replay too (the error's fields are public: set after construction where no constructor allows it)
    zero = lambda k: k in SYMS and m.eval(StrLen(SYMS[k].term), model_completion=True).as_long() == 0
    if zero('msg'): case['clear_external'] = True
    if has_code and zero('code'): case['code'] = ''; case['set_code'] = ''
    nat = replay([case])[0]
    chk.counterexample(f'{what}; status {v} -> native {nat}', case, not native_ok(case, nat), role=f'error:{ctor}')


def native_ok(case, nat):
    if 'panic' in nat: return False
    ctor = case['ctor']
    tbl = {c: r for c, r in httpmodel.status_table().values()}
    want_status = {'for_internal_error': 500, 'for_unavail': 503, 'for_bad_request': 400, 'for_not_found': 404}.get(ctor, case['status'])
    if ctor == 'struct_literal': want_msg = '' if case.get('clear_external') else case['message']
    elif case.get('clear_external'): want_msg = ''
    elif ctor in ('for_client_error', 'for_bad_request'): want_msg = case['message']
    elif ctor == 'for_client_error_with_status': want_msg = tbl.get(case['status'])
    else: want_msg = tbl[want_status]
    want_code = 'Internal' if ctor == 'for_internal_error' else case['code']
    b = nat.get('body', {})
    ok = nat.get('status') == want_status and b.get('request_id') == case['request_id'] and b.get('error_code') == want_code
    ok = ok and (want_msg is None or b.get('message') == want_msg)
    ok = ok and nat.get('x_request_id') == [case['request_id']] and nat.get('content_type') == ['application/json']
    ok = ok and 'internal-secret' not in nat.get('raw_body', '') and all('internal-secret' not in v for _, v in nat.get('headers', []))
    for h in case['headers']:
        ok = ok and [h[0], h[1]] in nat.get('headers', [])
    return ok


def witnesses(chk):
    cases = []
    for ctor in CONSTRUCTORS:
        for status in (400, 404, 418, 444, 451, 499):
            for code in (None, 'E_CODE'):
                cases.append({'op': 'http_error', 'ctor': ctor, 'status': status, 'code': code, 'message': 'external-msg', 'internal': 'internal-secret',
                              'headers': [['allow', 'GET'], ['x-custom', 'v']] if status == 418 else [], 'request_id': 'rid-123'})
    res = replay(cases)
    for c, r in zip(cases, res):
        chk.replayed += 1
        if not native_ok(c, r):
            chk.counterexample(f'{c["ctor"]} status {c["status"]} code {c["code"]}: native response {r}', c, True, role=f'error:{c["ctor"]}')
        if len(chk.samples) < 6: chk.samples.append({'case': c, 'native': r})
    r = replay([{'op': 'request_id_relay'}])[0]
    chk.replayed += 1
    if not r.get('as_specified'):
        chk.counterexample(f'request-id stamping on the wire: {r}', {'op': 'request_id_relay'}, True, role='stamping:wire')
    chk.samples.append({'request_id_relay': r})
    sc = replay([{'op': 'status_code', 'value': v} for v in (0, 99, 100, 399, 400, 499, 500, 599, 600, 999, 1000, 65535)])
    for r in sc:
        chk.replayed += 1
        v = r['value']
        if r['error'] != (400 <= v <= 599) or r['client'] != (400 <= v <= 499):
            chk.counterexample(f'status refinement types at {v}: {r}', {'op': 'status_code', 'value': v}, True, role='status:wire')

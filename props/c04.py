"""C04 - unmatched requests get 404 or 405 with a truthful Allow header: the router side is in props/router_run.py; the request entry point
(server.rs::http_request_handle) is executed as in C01: no handler runs for a request that matches no endpoint (any method, HEAD included)."""
from props import router_run, c01


def run(tier, replay_file=None):
    return router_run.run('C04', tier, replay_file, before_finish=c01.entry_point)

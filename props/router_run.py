"""Route-table exploration shared by C01 / C02 / C04 (and C06 via iterate()).

For every table of the family (concrete templates + methods, symbolic version ranges) and every
registration order, HttpRouter::new/insert/lookup_route are executed from MIR with a symbolic
request (k opaque segments, symbolic method, symbolic version); each execution path is compared
by z3 with the reference matcher in routerlib.  The table family is an enumeration of *shapes*;
everything inside a shape is decided by the solver."""
import itertools
import multiprocessing as mp
import os
import random
import time
import traceback

import z3

from mirsym import mir
from mirsym.core import Adt, Opaque, Panic, PMap, PVec, SymStr, Unsupported, dv, lit, zand, zor, znot, zbool
from mirsym.models import BASE_MODELS, val_eq
from mirsym.runner import Check, Inconclusive, replay
from props import httpmodel, routerlib as RL, vermodel
from props.routerlib import Endpoint, Request, describe_result, template_match, expected_vars
from props.vermodel import V, concretise

CORE = ['/', '/a', '/b', '/{x}', '/{r:.*}', '/a/b', '/a/{x}', '/a/{y}', '/a/{r:.*}', '/{x}/a', '/{x}/{y}', '/{x}/{r:.*}']
ODD = ['/{x}/{x}', '/{r:.*}/a', '/a/{s:.*}', '/a/']
# an extension method in lower case: registration and lookup must agree on its spelling
EXT_METHOD_TABLES = [[('purge', '/a', 'All'), ('GET', '/a', 'From')], [('purge', '/a/{x}', 'From'), ('purge', '/a/{x}', 'Until')]]
CASE_PAIRS = [('/{X}', '/{x}/a'), ('/a/{x}', '/a/{X}'), ('/{R:.*}', '/{r:.*}')]     # variable names are compared exactly
KIND_PAIRS = [(a, b) for a in RL.KINDS for b in RL.KINDS]
REQ_METHODS = ['GET', 'PUT', 'DELETE', 'get']


def family(tier, seed):
    """list of table specs: [(method, path, kind), ...]"""
    rnd = random.Random(seed)
    tables = []
    pairs = [(p, q) for i, p in enumerate(CORE) for q in CORE[i:]] + [(p, q) for p in ODD for q in ['/a', '/a/{x}', '/{x}']] + \
            [(p, p) for p in ODD] + CASE_PAIRS
    n = 0
    for p, q in pairs:
        for m2 in ('GET', 'PUT'):
            if tier == 'thorough':
                kps = KIND_PAIRS
            else:
                kps = [KIND_PAIRS[(n * 7 + seed) % 16], KIND_PAIRS[(n * 7 + 5 + seed) % 16]] if m2 == 'GET' else [KIND_PAIRS[(n * 5 + 3 + seed) % 16]]
            for k1, k2 in kps:
                tables.append([('GET', p, k1), (m2, q, k2)])
            n += 1
    # three-endpoint tables: exact path / wildcard / variable interplay, several ranges per method
    triples = [
        [('PUT', '/a/{r:.*}', 'All'), ('GET', '/a', 'FromUntil'), ('GET', '/a/{r:.*}', 'From')],
        [('GET', '/a/{r:.*}', 'Until'), ('GET', '/a', 'From'), ('GET', '/a/{r:.*}', 'From')],
        [('GET', '/a', 'Until'), ('GET', '/a', 'From'), ('PUT', '/a', 'FromUntil')],
        [('GET', '/a', 'FromUntil'), ('GET', '/a', 'FromUntil'), ('GET', '/a', 'FromUntil' if tier == 'thorough' else 'Until')],
        [('GET', '/{r:.*}', 'From'), ('GET', '/', 'Until'), ('PUT', '/', 'All')],
        [('GET', '/a', 'All'), ('GET', '/a/b', 'All'), ('GET', '/a/{r:.*}', 'All')],
        [('GET', '/a/{x}', 'From'), ('PUT', '/a/{x}', 'Until'), ('GET', '/a/{x}/b', 'All')],
        [('GET', '/{x}', 'FromUntil'), ('PUT', '/{x}/{r:.*}', 'From'), ('GET', '/{x}/{r:.*}', 'Until')],
    ]
    eps = [(m, p) for p in ['/a', '/a/{r:.*}', '/a/{x}', '/{x}', '/'] for m in ('GET', 'PUT')]
    all3 = [list(c) for c in itertools.combinations_with_replacement(eps, 3)]
    rnd.shuffle(all3)
    extra = all3 if tier == 'thorough' else all3[:10]
    for t in extra:
        triples.append([(m, p, rnd.choice(RL.KINDS[1:])) for m, p in t])
    tables = triples + EXT_METHOD_TABLES + tables        # heavy tables first (scheduling only)
    return tables


def mk_table(spec):
    return [Endpoint(i, m, p, k, max_bytes=(None if i % 2 else 1000 + i)) for i, (m, p, k) in enumerate(spec)]


def shares_version(e1, e2):
    """two ranges share a version.  Quantifier-free: in a total order without a least element, two ranges of the four kinds
    intersect iff one of their lower bounds lies in both (or neither has a lower bound).  C05 proves the same fact about
    overlaps_with against the quantified definition; here the quantifier-free form keeps the queries decidable quickly."""
    lows = [e.a for e in (e1, e2) if e.kind in ('From', 'FromUntil')]
    if not lows: return True
    return zor(*[zand(e1.contains(c), e2.contains(c)) for c in lows])


def conflict_pair(e_old, e_new):
    """the statement's conflict list for two endpoints (e_old already accepted)"""
    if RL.structural_conflict(e_old.tmpl, e_new.tmpl): return True
    if e_old.method.upper() == e_new.method.upper() and RL.shares_request_path(e_old.tmpl, e_new.tmpl):
        return shares_version(e_old, e_new)
    return False


def matches(e, rq):
    tm = template_match(e.tmpl, rq.segs)
    if tm is False: return False
    return zand(tm, rq.method_is(e.method), e.contains(rq.v))


def served_path(e, rq):
    """the request's path at the request's version is served by e (whatever the method)"""
    tm = template_match(e.tmpl, rq.segs)
    if tm is False: return False
    return zand(tm, e.contains(rq.v))


class TableRun:
    def __init__(self, chk, ex, R, spec, which, kmax, tag):
        self.chk, self.ex, self.R, self.spec, self.which, self.kmax, self.tag = chk, ex, R, spec, which, kmax, tag
        self.eps = mk_table(spec)
        self.assume = sum([e.assumptions() for e in self.eps], [])
        self.lits = sorted({n for e in self.eps for k, n in e.tmpl if k == 'lit'})
        self.all_versions = [v for e in self.eps for v in e.versions()]
        extra = sorted({m for m, _, _ in spec if m not in REQ_METHODS})
        self.req_methods = REQ_METHODS + extra + [m.upper() for m in extra if m.upper() not in REQ_METHODS]

    def name(self, what): return f'{self.tag}/{what}'

    # ------------------------------------------------------------------ registration
    def registration(self, order):
        """explore new()+insert()*; returns list of (pc, rejected_pos or None)"""
        chk, ex = self.chk, self.ex
        def h(ex):
            rc, rej, msg = self.R.build(ex, self.eps, order)
            hv = None
            if rej is None:
                hv = ex.call_fn(self.R.F_has_versioned, [RL.Ref(rc)])
            return (rej, hv)
        outs = ex.explore(h, self.assume)
        chk.paths += len(outs)
        res = []
        for pc, (kind, r) in outs:
            if kind != 'ok': raise Inconclusive(f'registration harness panicked outside insert: {r}')
            res.append((pc, r[0], r[1]))
        return res

    def spec_reject_pos(self, order, pos):
        """condition: registering order[pos] conflicts with an earlier accepted endpoint (or is ill-formed itself)"""
        e = self.eps[order[pos]]
        if RL.self_conflict(e.tmpl): return True
        return zor(*[conflict_pair(self.eps[order[q]], e) for q in range(pos)])

    def check_registration(self, order):
        chk = self.chk
        regs = self.registration(order)
        accepted_pcs = []
        for pc, rej, hv in regs:
            upto = len(order) if rej is None else rej
            for q in range(upto):
                c = self.spec_reject_pos(order, q)
                if self.which == 'C02':
                    m = chk.prove(self.name(f'accepted-implies-no-conflict/{order}/{q}'), pc, zbool(c), extra=self.assume)
                    if m is not None: self.report_registration(m, order, q, accepted=True)
            if rej is not None:
                c = self.spec_reject_pos(order, rej)
                if self.which == 'C02':
                    m = chk.prove(self.name(f'rejected-implies-conflict/{order}/{rej}'), pc, znot(zbool(c)), extra=self.assume)
                    if m is not None: self.report_registration(m, order, rej, accepted=False)
            else:
                accepted_pcs.append(pc)
                want = any(e.kind != 'All' for e in self.eps)
                if self.which == 'C01':
                    m = chk.prove(self.name(f'has_versioned_routes/{order}'), pc, zbool(hv) != want, extra=self.assume)
                    if m is not None:
                        c = concretise(m, self.all_versions)
                        case = {'op': 'router', 'endpoints': [e.json(c) for e in self.eps], 'order': list(order), 'requests': []}
                        r = replay([case])[0]
                        all_reg = len(r['registered']) == len(order) and all(x['ok'] for x in r['registered'])
                        chk.counterexample(f'router built from {[self.spec[i] for i in order]} reports has_versioned_routes()='
                                           f'{r.get("has_versioned")} but {"some" if want else "no"} endpoint is version-restricted '
                                           f'(an unversioned server would {"accept" if want else "refuse"} this API depending on registration order)',
                                           case, all_reg and r.get('has_versioned') != want, role='has_versioned:' + self.shape())
        return accepted_pcs

    def report_registration(self, m, order, pos, accepted):
        c = concretise(m, self.all_versions)
        case = {'op': 'router', 'endpoints': [e.json(c) for e in self.eps], 'order': list(order), 'requests': []}
        r = replay([case])[0]
        regs = r['registered']
        native_accepted = len(regs) > pos and regs[pos]['ok']
        native_reached = len(regs) > pos
        repro = native_reached and (native_accepted == accepted)
        what = (f'registration #{pos} of {[self.spec[i] for i in order]} with versions {[e.json(c)["versions"] for e in self.eps]} was '
                f'{"accepted although it conflicts" if accepted else "rejected although nothing conflicts"}')
        self.chk.counterexample(what, case, repro, role=('accepted-conflict' if accepted else 'rejected-clean') + ':' + self.shape())

    def shape(self):
        return '+'.join(f'{m} {p}' for m, p, k in self.spec)

    # ------------------------------------------------------------------ lookup
    def check_lookup(self, order, accepted_assume):
        chk, ex = self.chk, self.ex
        reach = {e.id: [] for e in self.eps}
        self.errs = []
        for k in range(self.kmax + 1):
            rq = Request(k, self.req_methods, versioned=any(e.kind != 'All' for e in self.eps) or k % 2 == 0)
            def h(ex):
                rc, rej, msg = self.R.build(ex, self.eps, order)
                if rej is not None: return None
                return describe_result(ex, self.R.lookup(ex, rc, rq))
            assume = self.assume + rq.assumptions()
            outs = ex.explore(h, assume)
            chk.paths += len(outs)
            for pc, (kind, r) in outs:
                if kind == 'panic':
                    # a panic inside lookup_route (after a fully accepted registration) is a violation of C01
                    m = chk.prove(self.name(f'lookup-no-panic/{order}/k{k}'), pc, z3.BoolVal(True), extra=assume)
                    if self.which == 'C01': self.report_lookup(m, order, rq, f'lookup_route panicked: {r}', lambda nat: 'panic' in nat)
                    continue
                if r is None: continue       # registration rejected on this path
                if r[0] == 'ok':
                    self.check_ok(pc, assume, order, rq, r, reach)
                else:
                    self.check_err(pc, assume, order, rq, r)
        return reach

    def check_bad_path(self, order):
        """a request whose path input_path_to_segments refuses (contract: C03) is answered 400 by lookup_route - whatever is registered, no endpoint"""
        chk, ex = self.chk, self.ex
        rq = Request(0, self.req_methods, versioned=True, tag='bad')
        def h(ex):
            rc, rej, msg = self.R.build(ex, self.eps, order)
            if rej is not None: return None
            return describe_result(ex, self.R.lookup(ex, rc, rq, bad_path=True))
        assume = self.assume + rq.assumptions()
        outs = ex.explore(h, assume)
        chk.paths += len(outs)
        for pc, (kind, r) in outs:
            if kind != 'ok' or r is None:
                if kind != 'ok':
                    m = chk.prove(self.name(f'refused-path/{order}/no-panic'), pc, z3.BoolVal(True), extra=assume)
                    if m is not None:
                        # refused paths of every length, with multi-byte characters at every offset near the lengths a message might cut at
                        c = concretise(m, self.all_versions + [rq.v])
                        req = {'method': 'GET', 'version': c.get(rq.v.name)}
                        paths = ['/%ff'] + ['/' + 'a' * k + '\u00e9\u20ac' * 3 + 'a' * pad + '/%ff' for k in (13, 29, 30, 61, 62, 93, 94, 125, 126, 253, 254, 509) for pad in (0, 40)]
                        case = {'op': 'router', 'endpoints': [e.json(c) for e in self.eps], 'order': list(order), 'requests': [dict(req, path=p_) for p_ in paths]}
                        nat = replay([case])[0]
                        res = nat.get('results') or []
                        bad = nat.get('panicked') or [x for x in res if x.get('err', {}).get('status') != 400]
                        chk.counterexample(f'lookup_route panics on a refused path ({r}); native, refused paths of many lengths: '
                                           f'{nat.get("panicked") or [(x.get("ok", {}).get("operation_id"), x.get("err", {}).get("status")) for x in res][:6]}', case, bool(bad),
                                           role=self.which + ':refused-path-panic')
                continue
            good = r[0] == 'err' and r[1] == 400
            m = chk.prove(self.name(f'refused-path-is-a-400-without-endpoint/{order}'), pc, z3.BoolVal(not good), extra=assume)
            if m is not None:
                c = concretise(m, self.all_versions + [rq.v])
                req = {'method': 'GET', 'path': '/%ff', 'version': c.get(rq.v.name)}
                case = {'op': 'router', 'endpoints': [e.json(c) for e in self.eps], 'order': list(order), 'requests': [req, dict(req, path='/a/../b'), dict(req, path='/%2e%2e')]}
                nat = replay([case])[0]
                res = nat.get('results') or []
                all_reg = len(nat['registered']) == len(order) and all(x['ok'] for x in nat['registered'])
                bad = [x for x in res if x.get('err', {}).get('status') != 400]
                self.chk.counterexample(f'a path that input_path_to_segments refuses is answered {r[:3]} by lookup_route; table {[self.spec[i] for i in order]}: native /%ff, /a/../b, /%2e%2e -> '
                                        f'{[(x.get("ok", {}).get("operation_id"), x.get("err", {}).get("status")) for x in res]}', case, all_reg and bool(bad), role=self.which + ':refused-path')

    def check_ok(self, pc, assume, order, rq, r, reach):
        chk, ex = self.chk, self.ex
        _, op_id, variables, max_bytes, ctype, handler = r
        op_id = dv(op_id)
        e = next((x for x in self.eps if x.id == op_id), None)
        if e is None: raise Inconclusive(f'lookup returned unknown operation id {op_id!r}')
        reach[e.id].append((rq, z3.And(*pc) if pc else z3.BoolVal(True), assume))
        if self.which in ('C01',):
            m = chk.prove(self.name(f'dispatched-endpoint-matches/{order}/k{rq.k}/{e.id}'), pc, znot(zbool(matches(e, rq))), extra=assume)
            if m is not None:
                self.report_lookup(m, order, rq, f'request dispatched to {e.id} ({e.method} {e.path}) which it does not match',
                                   lambda nat: nat.get('ok', {}).get('operation_id') == e.id)
            for o in self.eps:
                if o is e: continue
                m = chk.prove(self.name(f'no-other-endpoint-matches/{order}/k{rq.k}/{e.id}-{o.id}'), pc, zbool(matches(o, rq)), extra=assume)
                if m is not None:
                    self.report_lookup(m, order, rq, f'request matches {o.id} ({o.method} {o.path}) but was dispatched to {e.id}',
                                       lambda nat: nat.get('ok', {}).get('operation_id') == e.id)
            # variables
            exp = expected_vars(e.tmpl, rq.segs)
            bad = []
            got = {k_: c.v for k_, c in variables.items} if isinstance(variables, PMap) else None
            if got is None or set(got) != set(exp):
                bad.append(z3.BoolVal(True))
            else:
                for name, (kind_, val) in exp.items():
                    vv = got[name]
                    vname = ex.variant_name(vv)
                    if kind_ == 'one':
                        if vname != 'String': bad.append(z3.BoolVal(True)); continue
                        bad.append(znot(zbool(val_eq(ex, ex.payload(vv), val))))
                    else:
                        if vname != 'Components': bad.append(z3.BoolVal(True)); continue
                        items = dv(ex.payload(vv)).items
                        if len(items) != len(val): bad.append(z3.BoolVal(True)); continue
                        for c_, s_ in zip(items, val): bad.append(znot(zbool(val_eq(ex, c_.v, s_))))
            m = chk.prove(self.name(f'variables/{order}/k{rq.k}/{e.id}'), pc, z3.Or(bad) if bad else z3.BoolVal(False), extra=assume)
            if m is not None:
                def bad_vars(nat, e=e):
                    return 'ok' in nat     # compared in detail by report_lookup through expected variables
                self.report_lookup(m, order, rq, f'variables delivered for {e.id}: {got} (expected {exp})', None, expect_vars=(e, exp))
        if self.which in ('C01', 'C11'):
            # metadata carried to the request: body limit override, content type, handler
            mb_ok = (max_bytes.discr == 0) if e.max_bytes is None else (max_bytes.discr == 1 and ex.payload(max_bytes) == e.max_bytes)
            ct_ok = ex.variant_name(ctype) == e.content_type(ex)
            h_ok = isinstance(handler, Opaque) and handler.payload == e.id
            m = chk.prove(self.name(f'metadata/{order}/k{rq.k}/{e.id}'), pc, z3.BoolVal(not (mb_ok and ct_ok and h_ok)), extra=assume)
            if m is not None:
                self.report_lookup(m, order, rq, f'endpoint metadata for {e.id} wrong: max_bytes={max_bytes} content_type={ctype} handler={handler}',
                                   lambda nat: nat.get('ok', {}).get('max_bytes') != e.max_bytes or
                                   e.content_type(ex) not in nat.get('ok', {}).get('body_content_type', ''))

    def check_err(self, pc, assume, order, rq, r):
        chk = self.chk
        _, st, allow, err, sent = r
        self.errs.append((rq, z3.And(*pc) if pc else z3.BoolVal(True), assume, st, [a for a in allow if isinstance(a, str)]))
        if self.which == 'C11': return
        if self.which == 'C01':
            for e in self.eps:
                m = chk.prove(self.name(f'error-only-if-unmatched/{order}/k{rq.k}/{e.id}'), pc, zbool(matches(e, rq)), extra=assume)
                if m is not None:
                    self.report_lookup(m, order, rq, f'request matches {e.id} ({e.method} {e.path}) but got an error {st}',
                                       lambda nat: 'err' in nat)
        if self.which == 'C04':
            served_other = zor(*[served_path(e, rq) for e in self.eps])
            want405 = zbool(served_other)
            if st not in (404, 405):
                m = chk.prove(self.name(f'status-404-or-405/{order}/k{rq.k}'), pc, z3.BoolVal(True), extra=assume)
                self.report_lookup(m, order, rq, f'unmatched request answered {st}', lambda nat: nat.get('err', {}).get('status') == st)
                return
            m = chk.prove(self.name(f'405-iff-path-served/{order}/k{rq.k}/{st}'), pc, (z3.BoolVal(st == 405) != want405), extra=assume)
            if m is not None:
                self.report_lookup(m, order, rq, f'unmatched request answered {st}; path served for another method at this version: '
                                   f'{m.eval(want405, model_completion=True)}', lambda nat: nat.get('err', {}).get('status') == st)
            names = [a for a in allow if isinstance(a, str)]
            odd = [a for a in allow if not isinstance(a, str)]
            if sent is not None and sorted(map(str, sent)) != sorted(names):
                # the response built from the error must carry the same Allow values as the error itself
                m = chk.prove(self.name(f'allow-sent-as-computed/{order}/k{rq.k}'), pc, z3.BoolVal(True), extra=assume)
                self.report_lookup(m, order, rq, f'the error lists Allow={names} but its response carries Allow={sent}',
                                   lambda nat: sorted(nat.get('err', {}).get('allow_sent', [])) != sorted(nat.get('err', {}).get('allow', [])))
            if st == 404 and allow:
                m = chk.prove(self.name(f'404-no-allow/{order}/k{rq.k}'), pc, z3.BoolVal(True), extra=assume)
                self.report_lookup(m, order, rq, f'404 carries headers {allow}', lambda nat: bool(nat.get('err', {}).get('allow')))
            if st == 405:
                if odd or len(set(names)) != len(names):
                    m = chk.prove(self.name(f'allow-wellformed/{order}/k{rq.k}'), pc, z3.BoolVal(True), extra=assume)
                    self.report_lookup(m, order, rq, f'Allow header malformed: {allow}',
                                       lambda nat: sorted(nat.get('err', {}).get('allow', [])) == sorted(names))
                methods = sorted({e.method.upper() for e in self.eps} | set(names))
                for mname in methods:
                    served_m = zor(*[served_path(e, rq) for e in self.eps if e.method.upper() == mname])
                    m = chk.prove(self.name(f'allow-truthful/{order}/k{rq.k}/{mname}'), pc, z3.BoolVal(mname in names) != zbool(served_m), extra=assume)
                    if m is not None:
                        self.report_lookup(m, order, rq, f'405 Allow={names}: method {mname} listed={mname in names} but served at this '
                                           f'path and version={m.eval(zbool(served_m), model_completion=True)}',
                                           lambda nat: sorted(nat.get('err', {}).get('allow', [])) == sorted(names))

    def report_lookup(self, m, order, rq, what, same_as_model, expect_vars=None):
        if m is None: raise Inconclusive('internal: report without model')
        c = concretise(m, self.all_versions + ([rq.v] if rq.v else []))
        req, segs = rq.concretise(m, c, self.lits)
        case = {'op': 'router', 'endpoints': [e.json(c) for e in self.eps], 'order': list(order), 'requests': [req]}
        r = replay([case])[0]
        nat = r['results'][0] if r['results'] else {}
        all_reg = len(r['registered']) == len(order) and all(x['ok'] for x in r['registered'])
        if expect_vars is not None:
            e, exp = expect_vars
            natv = nat.get('ok', {}).get('variables', {})
            want = {}
            for name, (kind_, val) in exp.items():
                if kind_ == 'one': want[name] = 'String("%s")' % segs[rq.segs.index(val)]
                else: want[name] = 'Components([%s])' % ', '.join('"%s"' % segs[rq.segs.index(s)] for s in val)
            repro = all_reg and nat.get('ok', {}).get('operation_id') == e.id and natv != want
        else:
            repro = all_reg and bool(same_as_model(nat))
        self.chk.counterexample(f'{what}; table {[self.spec[i] for i in order]} versions {[e.json(c)["versions"] for e in self.eps]} '
                                f'request {req} -> native {nat}', case, repro, role=self.which + ':' + self.shape())

    # ------------------------------------------------------------------ C02: ambiguity + reachability
    def check_unambiguous(self, order, accepted_pcs):
        chk = self.chk
        if not accepted_pcs: return
        acc = z3.Or([z3.And(*pc) if pc else z3.BoolVal(True) for pc in accepted_pcs])
        for k in range(self.kmax + 1):
            rq = Request(k, self.req_methods, versioned=True, tag='amb')
            for e1, e2 in itertools.combinations(self.eps, 2):
                both = zand(matches(e1, rq), matches(e2, rq))
                if both is False: continue
                m = chk.prove(self.name(f'unambiguous/{order}/k{k}/{e1.id}-{e2.id}'), [acc] + self.assume + rq.assumptions(), zbool(both))
                if m is not None:
                    c = concretise(m, self.all_versions + [rq.v])
                    req, segs = rq.concretise(m, c, self.lits)
                    case = {'op': 'router', 'endpoints': [e.json(c) for e in self.eps], 'order': list(order), 'requests': [req]}
                    r = replay([case])[0]
                    all_reg = len(r['registered']) == len(order) and all(x['ok'] for x in r['registered'])
                    chk.counterexample(f'accepted table is ambiguous: {req} matches both {e1.id} ({e1.method} {e1.path}) and {e2.id} '
                                       f'({e2.method} {e2.path}); versions {[e.json(c)["versions"] for e in self.eps]}', case, all_reg,
                                       role='ambiguous:' + self.shape())

    def check_reachable(self, order, accepted_pcs):
        """for all version assignments under which the table is accepted, each endpoint answers a request built for it"""
        chk, ex = self.chk, self.ex
        if not accepted_pcs: return
        for e in self.eps:
            k = len(e.tmpl) - (1 if e.tmpl and e.tmpl[-1][0] == 'wild' else 0)
            segs = [(n if kd == 'lit' else 'zz%d' % i) for i, (kd, n) in enumerate(e.tmpl[:k])]
            rq = Request(k, [e.method], versioned=(e.kind != 'All'), tag='reach_' + e.id)
            rq.segs = segs
            extra = []
            if rq.v is not None:
                # a version inside e's range: its lower bound, or just below its upper bound
                src = e.a if e.kind in ('From', 'FromUntil') else e.b
                extra = [x == y for x, y in zip(rq.v.terms(), src.terms())]
                if e.kind == 'Until':
                    extra[3] = rq.v.pre == e.b.pre - 1
            def h(ex):
                rc, rej, msg = self.R.build(ex, self.eps, order)
                if rej is not None: return None
                return describe_result(ex, self.R.lookup(ex, rc, rq))
            assume = self.assume + rq.assumptions() + extra
            outs = ex.explore(h, assume)
            chk.paths += len(outs)
            n_ok = 0
            for pc, (kind, r) in outs:
                if kind == 'ok' and r is None: continue
                good = kind == 'ok' and r[0] == 'ok' and dv(r[1]) == e.id
                if good:
                    n_ok += 1
                    continue
                m = chk.prove(self.name(f'reachable/{order}/{e.id}'), pc, z3.BoolVal(True), extra=assume)
                if m is None: continue
                c = concretise(m, self.all_versions + ([rq.v] if rq.v else []))
                req = {'method': e.method, 'path': '/' + '/'.join(segs), 'version': c.get(rq.v.name) if rq.v else None}
                case = {'op': 'router', 'endpoints': [x.json(c) for x in self.eps], 'order': list(order), 'requests': [req]}
                rr = replay([case])[0]
                all_reg = len(rr['registered']) == len(order) and all(x['ok'] for x in rr['registered'])
                nat = rr['results'][0]
                chk.counterexample(f'registered endpoint {e.id} ({e.method} {e.path}) does not answer {req}: native {nat}; table '
                                   f'{[self.spec[i] for i in order]} versions {[x.json(c)["versions"] for x in self.eps]}', case,
                                   all_reg and nat.get('ok', {}).get('operation_id') != e.id, role='unreachable:' + self.shape())
            if n_ok:
                chk.witnesses.append({'name': self.name(f'reachable/{order}/{e.id}'), 'expect': 'sat', 'result': 'sat', 'time_s': 0})

    def run(self, orders):
        first = True
        for order in orders:
            accepted = self.check_registration(order)
            if not accepted: continue
            if self.which == 'C02':
                self.check_unambiguous(order, accepted)
                self.check_reachable(order, accepted)
            if self.which in ('C01', 'C04'):
                reach = self.check_lookup(order, accepted)
                if first:
                    self.witnesses(order, reach)
                    self.check_bad_path(order)
                first = False
            if self.which == 'C11':
                self.check_lookup(order, accepted)
            if self.which == 'C06':
                self.check_iter(order, accepted, first)
                first = False

    # ------------------------------------------------------------------ C06: the version-filtered iterator behind the OpenAPI document
    def render(self, e):
        return '/' + '/'.join(n if k == 'lit' else '{%s}' % n for k, n in e.tmpl)

    def check_iter(self, order, accepted, do_witness):
        from mirsym import refeval
        from mirsym.core import Cell, Ref
        chk, ex = self.chk, self.ex
        for versioned in (True, False):
            dv_ = V('doc_v') if versioned else None
            def h(ex):
                rc, rej, msg = self.R.build(ex, self.eps, order)
                if rej is not None: return None
                ver = ex.some(Ref(Cell(dv_.adt()))) if dv_ else ex.none()
                it = Cell(ex.call_fn(self.R.F_endpoints, [Ref(rc), ver]))
                items = []
                for _ in range(len(self.eps) + 2):
                    r = ex.call_fn(self.R.F_iter_next, [Ref(it)])
                    if r.discr == 0: return items
                    t = ex.payload(r)
                    items.append((dv(t.items[0].v), dv(t.items[1].v), dv(ex.field(dv(t.items[2].v), 'operation_id').v)))
                raise Unsupported('iterator did not end')
            assume = self.assume + (dv_.wf() if dv_ else [])
            outs = ex.explore(h, assume)
            chk.paths += len(outs)
            for pc, (kind, got) in outs:
                if kind == 'panic':
                    m = chk.prove(self.name(f'iter-no-panic/{order}'), pc, z3.BoolVal(True), extra=assume)
                    self.report_iter(m, order, dv_, f'endpoint iterator panicked: {got}')
                    continue
                if got is None: continue
                def spec(d):
                    live = [e for e in self.eps if d(zbool(e.contains(dv_)))]
                    live.sort(key=lambda e: (tuple(n for k, n in e.tmpl), e.method.upper()))
                    return [(self.render(e), e.method.upper(), e.id) for e in live]
                def then(pc2, want, got=got):
                    norm = [(p.replace(':.*}', '}'), m_, i) for p, m_, i in got]
                    if dv_ is None:
                        # the document is always generated for Some(version); without a version every endpoint is listed and
                        # several ranges of one (path, method) keep their registration order: compared as a multiset
                        norm, want = sorted(norm), sorted(want)
                    m = chk.prove(self.name(f'iter-lists-exactly-endpoints-at-version/{order}/{"v" if dv_ else "none"}'), pc2, z3.BoolVal(norm != want), extra=assume)
                    self.report_iter(m, order, dv_, f'iterator yields {got}, expected {want}')
                refeval.under(list(pc) + assume, spec, then, Inconclusive, max_depth=12)
            if do_witness and versioned:
                # translator validation + the document itself: native iterator and ApiDescription::openapi at a model's version
                m = chk.witness(self.name(f'iter-witness/{order}'), assume, z3.Or([z3.And(*pc) if pc else z3.BoolVal(True) for pc, (k, g) in outs if k == 'ok' and g is not None] or [z3.BoolVal(False)]))
                c = concretise(m, self.all_versions + [dv_])
                case = {'op': 'router', 'endpoints': [e.json(c) for e in self.eps], 'order': list(order), 'requests': [], 'iter_versions': [c[dv_.name], None]}
                r = replay([case])[0]
                chk.replayed += 1
                ev = lambda t: z3.is_true(m.eval(zbool(t), model_completion=True))
                for ver_, natl in zip([dv_, None], r['iters']):
                    live = [e for e in self.eps if (ver_ is None or ev(e.contains(ver_)))]
                    live.sort(key=lambda e: (tuple(n for k, n in e.tmpl), e.method.upper()))
                    want = [[self.render(e), e.method.upper(), e.id] for e in live]
                    got_n = [[p.replace(':.*}', '}'), m_, i] for p, m_, i in natl]
                    if ver_ is None: got_n, want = sorted(got_n), sorted(want)
                    if got_n != want:
                        # concrete table, concrete version, real iterator: it disagrees with the statement itself
                        chk.counterexample(f'the real iterator yields {natl} at version {c[dv_.name] if ver_ is not None else None}, the statement expects {want}; '
                                           f'table {[self.spec[i] for i in order]} versions {[e.json(c)["versions"] for e in self.eps]}', case, True, role='iter-witness')

    def report_iter(self, m, order, dv_, what):
        if m is None: return
        c = concretise(m, self.all_versions + ([dv_] if dv_ else []))
        case = {'op': 'router', 'endpoints': [e.json(c) for e in self.eps], 'order': list(order), 'requests': [], 'iter_versions': [c[dv_.name] if dv_ else None]}
        r = replay([case])[0]
        all_reg = len(r['registered']) == len(order) and all(x['ok'] for x in r['registered'])
        ev = lambda t: z3.is_true(m.eval(zbool(t), model_completion=True))
        live = [e for e in self.eps if (dv_ is None or ev(e.contains(dv_)))]
        live.sort(key=lambda e: (tuple(n for k, n in e.tmpl), e.method.upper()))
        want = [[self.render(e), e.method.upper(), e.id] for e in live]
        nat = [[p.replace(':.*}', '}'), m_, i] for p, m_, i in r['iters'][0]] if r['iters'] else None
        if dv_ is None and nat is not None: nat, want = sorted(nat), sorted(want)
        self.chk.counterexample(f'{what}; table {[self.spec[i] for i in order]} versions {[e.json(c)["versions"] for e in self.eps]} at version '
                                f'{c.get(dv_.name) if dv_ else None}: native iterator {nat}', case, all_reg and nat != want, role='iter:' + self.shape())

    def witnesses(self, order, reach):
        """vacuity guard + translator validation: one model per outcome class, replayed on the real router"""
        chk, ex = self.chk, self.ex
        cases = []
        if self.which == 'C01':
            for e in self.eps:
                if not reach[e.id]: continue
                rq, cond, assume = reach[e.id][-1]
                cases.append((f'dispatch-{e.id}', rq, cond, assume, ('ok', e)))
        else:
            seen = set()
            for rq, cond, assume, st, allow in self.errs:
                key = (st, tuple(sorted(allow)))
                if key in seen: continue
                seen.add(key)
                cases.append((f'error-{st}-{"+".join(sorted(allow))}', rq, cond, assume, ('err', st, sorted(allow))))
        for name, rq, cond, assume, want in cases:
            m = chk.witness(self.name(f'witness/{name}'), assume, cond)
            c = concretise(m, self.all_versions + ([rq.v] if rq.v else []))
            req, segs = rq.concretise(m, c, self.lits)
            case = {'op': 'router', 'endpoints': [e.json(c) for e in self.eps], 'order': list(order), 'requests': [req]}
            r = replay([case])[0]
            chk.replayed += 1
            nat = r['results'][0] if r['results'] else {}
            if want[0] == 'ok':
                e = want[1]
                exp = expected_vars(e.tmpl, rq.segs)
                wantv = {}
                for vn, (kind_, val) in exp.items():
                    if kind_ == 'one': wantv[vn] = 'String("%s")' % segs[rq.segs.index(val)]
                    else: wantv[vn] = 'Components([%s])' % ', '.join('"%s"' % segs[rq.segs.index(s_)] for s_ in val)
                good = nat.get('ok', {}).get('operation_id') == e.id and nat['ok']['variables'] == wantv
            else:
                good = nat.get('err', {}).get('status') == want[1] and sorted(nat['err']['allow']) == want[2]
            if not good:
                raise Inconclusive(f'encoding-mismatch: witness {name} for table {self.spec}: request {req} gives {nat} natively')
            if len(chk.samples) < 3:
                chk.samples.append({'table': [e.json(c) for e in self.eps], 'request': req, 'native': nat})


# ---------------------------------------------------------------------------------- orchestration
G = {}


def _worker(idx):
    chk, ex, R, which, kmax, tables = G['chk'], G['ex'], G['R'], G['which'], G['kmax'], G['tables']
    sub = chk.fork()
    spec = tables[idx]
    t0 = time.time()
    try:
        tr = TableRun(sub, ex, R, spec, which, kmax, f't{idx}')
        n = len(spec)
        orders = list(itertools.permutations(range(n)))
        tr.run(orders)
        sub.samples.append({'table': spec, 'orders': len(orders), 'paths': sub.paths})
    except Inconclusive as e:
        return dict(sub.summary(), inconclusive=f'table {spec}: {e}', table_s=time.time() - t0)
    except Unsupported as e:
        return dict(sub.summary(), inconclusive=f'table {spec}: unsupported: {e}', table_s=time.time() - t0)
    except Exception as e:
        return {'inconclusive': f'table {spec}: internal error {e!r} {traceback.format_exc()[-1500:]}'}
    out = sub.summary()
    out['table_s'] = time.time() - t0
    return out


def run(which, tier, replay_file=None, before_finish=None):
    chk = Check(which, tier)
    ex = chk.load(vermodel.MODELS + RL.ROUTER_MODELS + (httpmodel.MODELS if which == 'C04' else []) + BASE_MODELS)
    ex.const_models.append(httpmodel.const_model)
    vermodel.register_comparator(ex)
    R = RL.Router(chk, ex)
    RL.Ctx.into_response = mir.find(ex.fns, r'error::<impl at [^>]*>::into_response$') if which == 'C04' else None
    from mirsym.runner import replay_bin
    replay_bin()
    tables = family(tier, chk.seed)
    kmax = 3 if tier == 'quick' else 4
    G.update(chk=chk, ex=ex, R=R, which=which, kmax=kmax, tables=tables)
    chk.bounds = {'tables': len(tables), 'endpoints_per_table': '2-3', 'template_depth': '<=3 segments',
                  'request_segments': f'0..{kmax} opaque strings (any content, any length)', 'registration_orders': 'all permutations',
                  'methods': REQ_METHODS, 'version_ranges': 'kind fixed per table endpoint, bounds symbolic (structured semver order)'}
    chk.assumptions = ['input_path_to_segments returns Err or Ok(list of decoded segments) (contract checked under C03)',
                       'route tables outside the enumerated family of shapes are not covered',
                       'version order model as in C05']
    nproc = int(os.environ.get('VERIF_JOBS', '16'))
    ctx = mp.get_context('fork')
    incon = []
    slow = []
    with ctx.Pool(nproc) as pool:
        for res in pool.imap_unordered(_worker, range(len(tables)), chunksize=1):
            if 'inconclusive' in res:
                incon.append(res['inconclusive'])
                if 'samples' not in res: continue
            slow.append((round(res['table_s'], 1), res['samples'][-1].get('table') if res['samples'] else None))
            chk.absorb(res)
    slow.sort(key=lambda x: -x[0])
    chk.extra['slowest_tables'] = slow[:5]
    if os.environ.get('VERIF_DEBUG'): print('slowest tables:', slow[:8])
    if before_finish is not None: before_finish(chk)
    if incon:
        rc = chk.finish('inconclusive run')
        if rc == 1: 
            print(f'note: {len(incon)} table(s) inconclusive as well; first: {incon[0][:300]}')
            return 1
        raise Inconclusive(f'{len(incon)} table(s) inconclusive; first: {incon[0]}')
    return chk.finish('one obligation per (table shape, registration order, request length, execution path, endpoint/method); '
                      'non-trivial = distinct obligation name')

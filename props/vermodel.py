"""Model of semver::Version (DESIGN.md §4, refined): a record (major, minor, patch, pre, build)
ordered lexicographically — the structure of semver precedence as implemented by the semver
crate.  major/minor/patch are unbounded non-negative integers (a superset of u64); `pre` is a
point of a dense order with 0 = "no pre-release" as its maximum (a release is greater than
every pre-release of the same triple); `build` is a point of a dense order with 0 = "no build
metadata" as its minimum.  Field order is read from the semver crate's source."""
import glob
import os
import re

import z3

from mirsym.core import Adt, Cell, Opaque, Unsupported, dv, zand, zor
from mirsym.layout import Layouts
from mirsym.runner import REPO

_layout = None


def version_fields():
    global _layout
    if _layout is None:
        lock = open(os.path.join(REPO, 'Cargo.lock')).read()
        vers = re.findall(r'name = "semver"\nversion = "([^"]+)"', lock)
        L = Layouts()
        for v in vers:
            for p in glob.glob(os.path.expanduser(f'~/.cargo/registry/src/*/semver-{v}/src/lib.rs')):
                L.add_source(p, only={'Version'})
        if L.structs.get('Version') != ['major', 'minor', 'patch', 'pre', 'build']:
            raise Unsupported(f'semver::Version layout changed: {L.structs.get("Version")}')
        _layout = L.structs['Version']
        global _cmp_layout
        L2 = Layouts()
        for v in vers:
            for p in glob.glob(os.path.expanduser(f'~/.cargo/registry/src/*/semver-{v}/src/lib.rs')):
                L2.add_source(p, only={'Comparator', 'Op'})
        _cmp_layout = (L2.structs.get('Comparator'), L2.enums.get('Op'))
    return _layout


class V:
    """symbolic version"""
    def __init__(self, name):
        self.name = name
        self.major, self.minor, self.patch = z3.Ints(f'{name}_major {name}_minor {name}_patch')
        self.pre, self.build = z3.Reals(f'{name}_pre {name}_build')
    def wf(self):
        return [self.major >= 0, self.minor >= 0, self.patch >= 0, self.pre <= 0, self.build >= 0]
    def terms(self):
        return [self.major, self.minor, self.patch, self.pre, self.build]
    def adt(self):
        version_fields()
        return Adt('Version', 0, {None: [Cell(t) for t in self.terms()]})


def comps(x):
    x = dv(x)
    if isinstance(x, V): return x.terms()
    if isinstance(x, Adt) and x.ty == 'Version': return [c.v for c in x.fields[None]]
    raise Unsupported(f'not a version: {x!r}')


def lex_lt(a, b):
    if not a: return False
    return zor(a[0] < b[0], zand(a[0] == b[0], lex_lt(a[1:], b[1:])))


def lex_eq(a, b):
    return zand(*[x == y for x, y in zip(a, b)])


def v_lt(a, b): return lex_lt(comps(a), comps(b))
def v_eq(a, b): return lex_eq(comps(a), comps(b))
def v_le(a, b): return zor(v_lt(a, b), v_eq(a, b))
def v_ge(a, b): return v_le(b, a)
def v_gt(a, b): return v_lt(b, a)


def is_version(x):
    x = dv(x)
    return isinstance(x, Adt) and x.ty == 'Version'


def concretise(model, versions):
    """{name: semver string} realising the model's order exactly (pre-release / build tags are
    generated so that their relative order matches the model)"""
    ev = lambda t: model.eval(t, model_completion=True)
    pres = sorted({ev(v.pre).as_fraction() for v in versions if ev(v.pre).as_fraction() != 0})
    builds = sorted({ev(v.build).as_fraction() for v in versions if ev(v.build).as_fraction() != 0})
    out = {}
    for v in versions:
        s = '%d.%d.%d' % tuple(ev(t).as_long() for t in (v.major, v.minor, v.patch))
        p, b = ev(v.pre).as_fraction(), ev(v.build).as_fraction()
        if p != 0: s += '-p%04d' % pres.index(p)          # alphanumeric identifiers compare in ASCII order
        if b != 0: s += '+b%04d' % builds.index(b)
        out[v.name] = s
    return out


def m_ver_cmp(op):
    def f(ex, args, callee):
        a, b = args[0], args[1]
        return {'lt': v_lt, 'le': v_le, 'gt': v_gt, 'ge': v_ge, 'eq': v_eq, 'ne': lambda x, y: z3.Not(v_eq(x, y))}[op](a, b)
    return f


def m_ver_ord(ex, args, callee):
    a, b = args[0], args[1]
    if ex.truth(v_lt(a, b)): return ex.mk_enum('Ordering', 'Less')
    if ex.truth(v_eq(a, b)): return ex.mk_enum('Ordering', 'Equal')
    return ex.mk_enum('Ordering', 'Greater')


_cmp_layout = None


def register_comparator(ex):
    """make `semver::Comparator { .. }` aggregates and `Op::X` constants constructible (layout read from the semver crate)"""
    version_fields()
    fields, ops = _cmp_layout
    if fields != ['op', 'major', 'minor', 'patch', 'pre'] or not ops or ops[:5] != ['Exact', 'Greater', 'GreaterEq', 'Less', 'LessEq']:
        raise Unsupported(f'semver::Comparator / Op layout changed: {_cmp_layout}')
    ex.L.structs.setdefault('Comparator', fields)
    if 'Op' not in ex.L.enums:
        ex.L.enums['Op'] = ops
        for v in ops:
            owners = ex.variant_owner.setdefault(v, [])
            if 'Op' not in owners: owners.append('Op')


def m_comparator_matches(ex, args, callee):
    """semver::Comparator::matches (src/eval.rs, matches_comparator): the ordering test on (major, minor, patch, pre) for the comparison
    operators AND Cargo's pre-release rule: a version with a pre-release tag only matches a comparator with the same major.minor.patch
    that has a pre-release tag itself"""
    register_comparator(ex)
    cmp_, ver = dv(args[0]), dv(args[1])
    if not (isinstance(cmp_, Adt) and cmp_.ty == 'Comparator'): raise Unsupported(f'Comparator::matches on {cmp_!r}')
    op, major, minor, patch, pre = [dv(c.v) for c in cmp_.fields[None]]
    opn = ex.variant_name(op) if isinstance(op, Adt) else (op.payload.split('::')[-1] if isinstance(op, Opaque) else None)
    if opn not in ('Exact', 'Greater', 'GreaterEq', 'Less', 'LessEq') or minor.discr != 1 or patch.discr != 1:
        raise Unsupported(f'Comparator::matches with op {opn} / partial version')
    c = [major, ex.payload(minor), ex.payload(patch), pre]
    v = comps(ver)[:4]
    exact, less, greater = lex_eq(v, c), lex_lt(v, c), lex_lt(c, v)
    impl = {'Exact': exact, 'Greater': greater, 'GreaterEq': zor(exact, greater), 'Less': less, 'LessEq': zor(exact, less)}[opn]
    compatible = zand(v[0] == c[0], v[1] == c[1], v[2] == c[2], c[3] != 0)
    return zand(impl, zor(v[3] == 0, compatible))


def m_ver_new(ex, args, callee):
    """Version::new(major, minor, patch): a release without build metadata"""
    version_fields()
    return Adt('Version', 0, {None: [Cell(dv(a)) for a in args[:3]] + [Cell(z3.RealVal(0)), Cell(z3.RealVal(0))]})


MODELS = [
    (r'^(semver::)?Version::new$', m_ver_new),
    (r'^(semver::)?Comparator::matches$', m_comparator_matches),
    (r'<(semver::)?Prerelease as Clone>::clone$|<(semver::)?BuildMetadata as Clone>::clone$', lambda ex, a, c: dv(a[0])),
    (r'semver::Version as PartialOrd>::lt$', m_ver_cmp('lt')), (r'semver::Version as PartialOrd>::le$', m_ver_cmp('le')),
    (r'semver::Version as PartialOrd>::gt$', m_ver_cmp('gt')), (r'semver::Version as PartialOrd>::ge$', m_ver_cmp('ge')),
    (r'semver::Version as PartialEq>::eq$', m_ver_cmp('eq')), (r'semver::Version as PartialEq>::ne$', m_ver_cmp('ne')),
    (r'semver::Version as Ord>::cmp$', m_ver_ord),
    (r'semver::Version as Ord>::max$', lambda ex, a, c: a[1] if ex.truth(v_le(a[0], a[1])) else a[0]),
    (r'semver::Version as Ord>::min$', lambda ex, a, c: a[0] if ex.truth(v_le(a[0], a[1])) else a[1]),
    (r'semver::Prerelease::is_empty$', lambda ex, a, c: dv(a[0]) == 0),
    (r'semver::BuildMetadata::is_empty$', lambda ex, a, c: dv(a[0]) == 0),
]

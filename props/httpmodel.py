"""Models of the `http` crate's value types (DESIGN.md §4): StatusCode, HeaderName/Value,
HeaderMap, Request, response::Builder.  Status-code numbers and canonical reasons are read
from the `http` crate source in the cargo registry (the version pinned by /repo/Cargo.lock)."""
import glob
import os
import re

import z3

from mirsym.core import (Adt, Cell, Opaque, Panic, PVec, Ref, SB, SymStr, Tup, Unsupported, dv, is_sym, lit, StrSort,
                         zand, znot, zor, zbool)
from mirsym.runner import REPO

_tbl = None


def status_table():
    """{NAME: (code, reason)} from http/src/status.rs `status_codes!`"""
    global _tbl
    if _tbl is None:
        lock = open(os.path.join(REPO, 'Cargo.lock')).read()
        m = re.search(r'name = "http"\nversion = "([^"]+)"', lock)
        cands = glob.glob(os.path.expanduser(f'~/.cargo/registry/src/*/http-{m.group(1)}/src/status.rs'))
        if not cands: raise Unsupported('http crate source not found')
        src = open(cands[0]).read()
        _tbl = {}
        for mm in re.finditer(r'^\s*\((\d+), (\w+), "([^"]*)"\);', src, re.M):
            _tbl[mm.group(2)] = (int(mm.group(1)), mm.group(3))
        if len(_tbl) < 40: raise Unsupported('status table parse')
    return _tbl


def canonical_reason(ex, code):
    """Option<&'static str>: Some exactly for the codes listed in the http crate"""
    tbl = {c: r for c, r in status_table().values()}
    code = dv(code)
    if isinstance(code, Adt): code = code.fields[None][0].v
    if isinstance(code, int):
        return ex.some(tbl[code]) if code in tbl else ex.none()
    conds = [code == c for c in sorted(tbl)]
    conds.append(z3.And([z3.Not(c) for c in conds]))
    i = ex.branch(conds)
    ks = sorted(tbl)
    return ex.some(tbl[ks[i]]) if i < len(ks) else ex.none()


def status_of(ex, err):
    """numeric status of an HttpError value (int or BV16)"""
    sc = ex.field(err, 'status_code').v
    while isinstance(sc, Adt): sc = sc.fields[None][0].v
    return sc


class HV:
    """HeaderValue: content (str | SymStr | SB), visible-ASCII flag, optional symbolic presence,
    optional parse outcomes {type: (ok Bool, value)}"""
    def __init__(self, content, ascii_ok=True, present=True, parse=None):
        self.content, self.ascii_ok, self.present, self.parse = content, ascii_ok, present, parse or {}
    def __repr__(self): return f'HV({self.content!r})'


class HdrText(SymStr):
    """the &str view of a header value, remembering what it parses to"""
    def __init__(self, term, parse): self.term, self.parse = term, parse


def SymHeaderValue(present, ascii_ok, parses, version):
    t = z3.FreshConst(StrSort, 'hdrtext')
    return HV(HdrText(t, {'Version': (parses, version)}), ascii_ok, present)


class HMap:
    """HeaderMap: ordered multimap name -> HV"""
    def __init__(self, entries=None): self.entries = list(entries or [])
    def __repr__(self): return f'HMap{self.entries}'


def SymHeaderMap(d):
    return HMap([(k, v) for k, v in d.items()])


class Request:
    def __init__(self, headers=None, method=None, uri=None, body=None, version=None, extensions=None):
        self.headers, self.method, self.uri, self.body, self.version = headers or HMap(), method, uri, body, version
    def __repr__(self): return f'Request({self.method},{self.uri},{self.headers})'


def hname(n):
    n = dv(n)
    if isinstance(n, str): return n.lower()
    if isinstance(n, Opaque) and n.tag == 'const':
        return n.payload.split('::')[-1].lower().replace('_', '-')
    raise Unsupported(f'header name {n!r}')


def m_headers(ex, args, callee):
    r = dv(args[0])
    if isinstance(r, Request): return Ref(Cell(r.headers))
    raise Unsupported(f'headers() of {r!r}')


def m_hm_get(ex, args, callee):
    hm, name = dv(args[0]), hname(args[1])
    for n, v in hm.entries:
        if n == name:
            if v.present is True or ex.truth(v.present): return ex.some(Ref(Cell(v)))
            if v.present is False: continue
    return ex.none()


def m_hv_to_str(ex, args, callee):
    v = dv(args[0])
    if ex.truth(v.ascii_ok): return ex.ok(v.content)
    return ex.err(Opaque('ToStrError'))


def m_hv_as_bytes(ex, args, callee):
    v = dv(args[0])
    return Ref(Cell(v.content))


def m_parse_version(ex, args, callee):
    s = dv(args[0])
    if isinstance(s, HdrText) and len(s.parse) == 1:
        okb, val = list(s.parse.values())[0]
        if ex.truth(okb): return ex.ok(val)
        return ex.err(Opaque('semver::Error'))
    raise Unsupported(f'parse::<Version> of {s!r}')


def const_model(ex, c):
    m = re.match(r'^(?:http::)?(?:status::)?StatusCode::(\w+)$', c)
    if m and m.group(1) in status_table(): return status_table()[m.group(1)][0]
    m = re.match(r'^(?:http::)?header::(\w+)$', c)
    if m and m.group(1).isupper(): return m.group(1).lower().replace('_', '-')
    return None


def m_sc_as_u16(ex, args, callee):
    v = dv(args[0])
    while isinstance(v, Adt): v = v.fields[None][0].v
    return v


def rng_check(lo, hi):
    def f(ex, args, callee):
        v = m_sc_as_u16(ex, args, callee)
        if isinstance(v, int): return lo <= v <= hi
        return z3.And(z3.UGE(v, lo), z3.ULE(v, hi))
    return f


def m_sc_from_u16(ex, args, callee):
    v = args[0]
    if isinstance(v, int):
        return ex.ok(v) if 100 <= v <= 999 else ex.err(Opaque('InvalidStatusCode'))
    if ex.truth(z3.And(z3.UGE(v, 100), z3.ULE(v, 999))): return ex.ok(v)
    return ex.err(Opaque('InvalidStatusCode'))


hv_ok = z3.Function('hv_ok', StrSort, z3.BoolSort())     # "is a legal header value" for opaque strings


def m_hname_try_from(ex, args, callee):
    n = dv(args[0])
    if isinstance(n, str):
        if n and all(ch.isalnum() or ch in "!#$%&'*+-.^_`|~" for ch in n): return ex.ok(n.lower())
        return ex.err(Opaque('InvalidHeaderName'))
    if isinstance(n, Opaque) and n.tag == 'const': return ex.ok(hname(n))
    raise Unsupported(f'HeaderName::try_from {n!r}')


def m_hname_from_lowercase(ex, args, callee):
    """HeaderName::from_lowercase(bytes): as try_from, but any upper-case letter is an error"""
    n = dv(args[0])
    if isinstance(n, PVec): n = bytes(dv(c.v) for c in n.items).decode('latin1')
    if isinstance(n, str):
        if n and all((ch.isalnum() and not ch.isupper()) or ch in "!#$%&'*+-.^_`|~" for ch in n): return ex.ok(n)
        return ex.err(Opaque('InvalidHeaderName'))
    raise Unsupported(f'HeaderName::from_lowercase {n!r}')


def m_hvalue_try_from(ex, args, callee):
    v = dv(args[0])
    if isinstance(v, HV): return ex.ok(v)
    if isinstance(v, Opaque) and v.tag == 'b64': return ex.ok(HV(v))       # base64 text is always a legal header value
    if isinstance(v, str):
        if all((32 <= ord(ch) != 127) or ch == '\t' for ch in v): return ex.ok(HV(v))
        return ex.err(Opaque('InvalidHeaderValue'))
    if isinstance(v, SymStr):
        if ex.truth(hv_ok(v.term)): return ex.ok(HV(v))
        return ex.err(Opaque('InvalidHeaderValue'))
    if isinstance(v, SB):
        if ex.truth(hv_bytes_ok(v.bs)): return ex.ok(HV(v))
        return ex.err(Opaque('InvalidHeaderValue'))
    raise Unsupported(f'HeaderValue::try_from {v!r}')


_hv_rule = []


def hv_bytes_ok(bs):
    """http::header::value::is_valid for every byte, read from the http crate's source: `b >= 32 && b != 127 || b == b'\\t'`"""
    if not _hv_rule:
        import glob, os, re
        from mirsym.runner import REPO
        ver = re.search(r'name = "http"\nversion = "([^"]+)"', open(os.path.join(REPO, 'Cargo.lock')).read()).group(1)
        src = open(glob.glob(os.path.expanduser(f'~/.cargo/registry/src/*/http-{ver}/src/header/value.rs'))[0]).read()
        m = re.search(r"fn is_valid\(b: u8\) -> bool \{\s*b >= (\d+) && b != (\d+) \|\| b == b'\\t'\s*\}", src)
        if not m: raise Unsupported('http::header::value::is_valid has changed shape')
        _hv_rule.extend([int(m.group(1)), int(m.group(2))])
    lo, ex_ = _hv_rule
    b8 = lambda b: b if z3.is_expr(b) else z3.BitVecVal(b, 8)
    return z3.And([z3.Or(z3.And(z3.UGE(b8(b), lo), b8(b) != ex_), b8(b) == 9) for b in bs] or [z3.BoolVal(True)])


def m_hm_try_append(ex, args, callee):
    hm = dv(args[0])
    name = hname(args[1])
    had = any(n == name for n, _ in hm.entries)
    hm.entries.append((name, dv(args[2])))
    return ex.ok(had)


def m_hm_insert(ex, args, callee):
    hm = dv(args[0])
    name = hname(args[1])
    old = [v for n, v in hm.entries if n == name]
    if old:
        i = [n for n, _ in hm.entries].index(name)
        hm.entries = [(n, v) for n, v in hm.entries if n != name]
        hm.entries.insert(i, (name, dv(args[2])))
        return ex.some(old[0])
    hm.entries.append((name, dv(args[2])))
    return ex.none()


class RespBuilder:
    """http::response::Builder: parts or a latched error (first invalid header / status)"""
    def __init__(self): self.status, self.hcell, self.failed = 200, Cell(HMap()), False
    @property
    def headers(self): return dv(self.hcell.v)
    def __repr__(self): return f'Builder({self.status},{self.headers},failed={self.failed})'


class Response:
    def __init__(self, status, headers, body): self.status, self.headers, self.body = status, headers, body
    def __repr__(self): return f'Response({self.status},{self.headers},{self.body!r})'


class JsonText:
    """serde_json::to_string*(value): uninterpreted, but keeps the value it renders"""
    def __init__(self, value, pretty=False): self.value, self.pretty = value, pretty
    def __repr__(self): return f'Json({self.value!r})'


def m_builder_status(ex, args, callee):
    b = args[0]
    sc = dv(args[1])
    while isinstance(sc, Adt): sc = sc.fields[None][0].v
    b.status = sc
    return b


def m_builder_header(ex, args, callee):
    b = args[0]
    if b.failed: return b
    n = m_hname_try_from(ex, [args[1]], callee)
    v = m_hvalue_try_from(ex, [args[2]], callee)
    if n.discr == 1 or v.discr == 1:
        b.failed = True; return b
    b.headers.entries.append((ex.payload(n), ex.payload(v)))
    return b


def m_builder_headers_mut(ex, args, callee):
    b = dv(args[0])
    if b.failed: return ex.none()
    return ex.some(Ref(b.hcell))


def m_builder_body(ex, args, callee):
    b = args[0]
    if b.failed: return ex.err(Opaque('http::Error'))
    return ex.ok(Response(b.status, b.headers, args[1]))


def m_resp_headers_mut(ex, args, callee):
    r = dv(args[0])
    c = Cell(r.headers)
    return Ref(c)


def m_json_to_string(ex, args, callee):
    return ex.ok(JsonText(dv(args[0]), 'pretty' in callee))


MODELS = [
    (r'HeaderName::from_lowercase$', m_hname_from_lowercase),
    (r'HeaderMap::contains_key::|HeaderMap::<.*>::contains_key::', lambda ex, a, c: m_hm_get(ex, a, c).discr == 1),
    (r'<http::Error as From<.*>>::from$', lambda ex, a, c: Opaque('http::Error')),
    (r'Response::<.*>::builder$|^(http::|hyper::)?(response::)?Response::builder$', lambda ex, a, c: RespBuilder()),
    (r'response::Builder::status::|Builder::status::', m_builder_status),
    (r'response::Builder::header::|Builder::header::', m_builder_header),
    (r'response::Builder::headers_mut$|Builder::headers_mut$', m_builder_headers_mut),
    (r'response::Builder::body::|Builder::body::', m_builder_body),
    (r'Response::<.*>::status$', lambda ex, a, c: dv(a[0]).status),
    (r'Response::<.*>::headers_mut$', m_resp_headers_mut),
    (r'Response::<.*>::headers$', lambda ex, a, c: Ref(Cell(dv(a[0]).headers))),
    (r'^serde_json::to_string_pretty::|^serde_json::to_string::|^serde_json::to_vec::', m_json_to_string),
    # dropshot::Body is a thin wrapper around http_body_util bodies: its constructors are modelled (override), its
    # contents are whatever value was handed in
    (r'<(body::)?Body as From<.*>>::from$|^(body::)?Body::with_content::', lambda ex, a, c: Opaque('body', a[0]), True),
    (r'^(body::)?Body::empty$', lambda ex, a, c: Opaque('body', None), True),
    (r'<HeaderName as TryFrom<.*>>::try_from$|HeaderName::from_static$', m_hname_try_from),
    (r'<HeaderValue as TryFrom<.*>>::try_from$|HeaderValue::from_str$|<HeaderValue as FromStr>::from_str$', m_hvalue_try_from),
    (r'HeaderMap::try_append::|HeaderMap::<.*>::try_append::|HeaderMap::append::|HeaderMap::<.*>::append::', m_hm_try_append),
    (r'HeaderMap::insert::|HeaderMap::<.*>::insert::', m_hm_insert),
    (r'HeaderMap::try_insert::|HeaderMap::<.*>::try_insert::', lambda ex, a, c: ex.ok(m_hm_insert(ex, a, c))),
    (r'HeaderMap::new$|HeaderMap::<.*>::new$', lambda ex, a, c: HMap()),
    (r'HeaderMap::reserve$|HeaderMap::<.*>::reserve$', lambda ex, a, c: Tup([])),
    (r'HeaderMap::len$|HeaderMap::<.*>::len$', lambda ex, a, c: len(dv(a[0]).entries)),
    (r'Request::<.*>::headers$', m_headers),
    (r'Request::<.*>::into_body$', lambda ex, a, c: dv(a[0]).body),
    (r'HeaderMap::get::|HeaderMap::<.*>::get::', m_hm_get),
    (r'HeaderValue::to_str$', m_hv_to_str),
    (r'HeaderValue::as_bytes$', m_hv_as_bytes),
    (r'str>::parse::<|<semver::Version as FromStr>::from_str$', m_parse_version),
    (r'StatusCode::as_u16$', m_sc_as_u16),
    (r'StatusCode::is_client_error$', rng_check(400, 499)),
    (r'StatusCode::is_server_error$', rng_check(500, 599)),
    (r'StatusCode::is_success$', rng_check(200, 299)),
    (r'StatusCode::is_informational$', rng_check(100, 199)),
    (r'StatusCode::is_redirection$', rng_check(300, 399)),
    (r'StatusCode::canonical_reason$', lambda ex, a, c: canonical_reason(ex, a[0])),
    (r'StatusCode::from_u16$', m_sc_from_u16),
]

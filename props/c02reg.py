"""C02, registration-time validation: ApiDescription::register::_register with validate_tags,
validate_path_parameters, validate_named_parameters and type_util::{type_is_scalar, type_is_string_enum,
type_resolve} executed from MIR.  Parameter schemas are schemars values of enumerated shapes (layouts from the
registry source); tags, tag policy flags, visibility and parameter names are symbolic where the code compares them."""
import itertools

import z3

from mirsym import mir
from mirsym.core import Adt, Cell, Opaque, Panic, PMap, PSet, PVec, Ref, SymStr, Tup, Unsupported, dv, lit, StrSort, zand, zor, znot, zbool
from mirsym.runner import Inconclusive, replay
from props import c08
from props.routerlib import Endpoint


def schema_shapes(b, ex):
    """(name, schema, dependencies, is_scalar, is_string_array)"""
    scal = lambda t: b.schema(b.typed(t))
    obj = b.schema(b.typed('Object'))
    def arr(item): 
        av = ex.mk_struct('ArrayValidation', items=ex.some(ex.mk_enum('SingleOrVec', 'Single', [b.boxed(item)])), additional_items=ex.none(), max_items=ex.none(),
                          min_items=ex.none(), unique_items=ex.none(), contains=ex.none())
        return b.schema(b.typed('Array', array=ex.some(b.boxed(av))))
    def sub(key, subs):
        d = dict(all_of=ex.none(), any_of=ex.none(), one_of=ex.none(), **{'not': ex.none()}, if_schema=ex.none(), then_schema=ex.none(), else_schema=ex.none())
        d[key] = ex.some(PVec([Cell(s) for s in subs]))
        return b.schema(b.schema_object(subschemas=ex.some(b.boxed(ex.mk_struct('SubschemaValidation', **d)))))
    def deps(**kw):
        m = PMap()
        for k, v in kw.items(): m.put(k, v)
        return m
    ref = lambda n: b.ref('#/components/schemas/' + n)
    out = [
        ('string', scal('String'), deps(), True, False), ('integer', scal('Integer'), deps(), True, False), ('number', scal('Number'), deps(), True, False),
        ('boolean', scal('Boolean'), deps(), True, False), ('null', scal('Null'), deps(), False, False), ('object', obj, deps(), False, False),
        ('array-of-string', arr(scal('String')), deps(), False, True), ('array-of-integer', arr(scal('Integer')), deps(), False, False),
        ('ref-to-string', ref('S'), deps(S=scal('String')), True, False), ('ref-to-object', ref('O'), deps(O=obj), False, False),
        ('ref-chain-to-integer', ref('A'), deps(A=ref('B'), B=scal('Integer')), True, False),
        ('ref-to-array-of-string', ref('L'), deps(L=arr(scal('String'))), False, True),
        ('oneOf-scalars', sub('one_of', [scal('String'), scal('Integer')]), deps(), True, False),
        ('oneOf-scalar-and-object', sub('one_of', [scal('String'), obj]), deps(), False, False),
        ('oneOf-object-and-scalar', sub('one_of', [obj, scal('String')]), deps(), False, False),
        ('oneOf-ref-scalar-and-ref-object', sub('one_of', [ref('S'), ref('O')]), deps(S=scal('String'), O=obj), False, False),
        ('allOf-one-scalar', sub('all_of', [scal('Integer')]), deps(), True, False), ('allOf-two-scalars', sub('all_of', [scal('Integer'), scal('String')]), deps(), False, False),
        ('anyOf-one-object', sub('any_of', [obj]), deps(), False, False), ('anyOf-one-ref-scalar', sub('any_of', [ref('S')]), deps(S=scal('Boolean')), True, False),
    ]
    return out


def part_registration(chk):
    ex = chk.ex
    c08.load_layouts(ex)
    b = c08.B(ex)
    f = ex.fns
    F_reg = mir.find(f, r'(^|::)_register$')
    saved = ex.models
    ex.models = [m for m in c08.MODELS if m[1] is not None] + [
        (r'HashMap::<.*>::contains_key::', lambda ex, a, c: __import__('mirsym.models', fromlist=['m_map_contains']).m_map_contains(ex, a, c)),
        (r'IndexMap::<.*>::get::<', lambda ex, a, c: __import__('mirsym.models', fromlist=['m_map_get']).m_map_get(ex, a, c)),
        (r'HashSet::<.*>::difference(::|$)', lambda ex, a, c: __import__('mirsym.models', fromlist=['It']).It('list', [Ref(Cell(k)) for k, _ in dv(a[0]).items if dv(a[1]).find(k) is None])),
        (r'slice::<impl \[.*\]>::sort$|Vec::<.*>::sort$', lambda ex, a, c: Tup([])),
        (r'<HashSet<.*> as PartialEq>::(eq|ne)$', lambda ex, a, c: ((sorted(k for k, _ in dv(a[0]).items) == sorted(k for k, _ in dv(a[1]).items)) != c.endswith('::ne'))),
    ] + ex.models
    try:
        _registration(chk, ex, b, F_reg)
    finally:
        ex.models = saved


def mk_param(ex, kind, name, schema, deps_):
    md = ex.mk_enum('ApiEndpointParameterMetadata', kind, [name])
    gen = ex.mk_enum('ApiSchemaGenerator', 'Static', [Ref(Cell(schema)), deps_])
    return ex.mk_struct('ApiEndpointParameter', metadata=md, description=ex.none(), required=True, schema=gen, examples=PVec())


def _registration(chk, ex, b, F_reg):
    from props.routerlib import Router
    R = Router(chk, ex)
    def api(ex, policy, allow_other, allowed):
        tags = PMap()
        for t in allowed: tags.put(t, Opaque('tag-details'))
        tc = ex.mk_struct('TagConfig', allow_other_tags=allow_other, policy=ex.mk_enum('EndpointTagPolicy', policy), tags=tags)
        return ex.mk_struct('ApiDescription', router=ex.call_fn(R.F_new, []), tag_config=tc)
    def endpoint(ex, path, params, tags, visible):
        e = Endpoint(0, 'GET', path, 'All').mk(ex)
        ex.field(e, 'parameters').v = PVec([Cell(p) for p in params])
        ex.field(e, 'tags').v = PVec([Cell(t) for t in tags])
        ex.field(e, 'visible').v = visible
        return e
    n_acc = n_rej = 0
    # ---- tags: policy x number of tags x (membership, allow_other_tags, visibility symbolic)
    allow_other, visible = z3.Bools('allow_other_tags endpoint_visible')
    t1, t2 = SymStr(z3.Const('tag_1', StrSort)), SymStr(z3.Const('tag_2', StrSort))
    for policy, ntags in itertools.product(('Any', 'AtLeastOne', 'ExactlyOne'), (0, 1, 2)):
        tags = [t1, t2][:ntags]
        def h(ex):
            a = Cell(api(ex, policy, allow_other, ['known-a', 'known-b']))
            return ex.call_fn(F_reg, [Ref(a), endpoint(ex, '/a', [], tags, visible)])
        outs = ex.explore(h, [])
        chk.paths += len(outs)
        known = lambda t: z3.Or(t.term == lit('known-a'), t.term == lit('known-b'))
        count_bad = (policy == 'AtLeastOne' and ntags == 0) or (policy == 'ExactlyOne' and ntags != 1)
        violates = z3.And(visible, z3.Or(z3.BoolVal(count_bad), z3.And(z3.Not(allow_other), z3.Not(z3.And([known(t) for t in tags]) if tags else z3.BoolVal(True)))))
        for pc, (k, r) in outs:
            if k != 'ok':
                m = chk.prove(f'register/tags/{policy}/{ntags}/no-panic', pc, z3.BoolVal(True))
                if m is not None: chk.mismatches.append(f'_register panics on tags {policy}/{ntags}: {r}')
                continue
            rejected = r.discr == 1
            n_rej += rejected; n_acc += not rejected
            m = chk.prove(f'register/tags/{policy}/{ntags}/rejected-iff-policy-violated', pc, z3.BoolVal(rejected) != violates)
            if m is not None:
                ev = lambda t: bool(m.eval(t, model_completion=True))
                tg = [('known-a' if ev(t.term == lit('known-a')) else 'known-b' if ev(t.term == lit('known-b')) else 'other-tag') for t in tags]
                case = {'op': 'register_tags', 'policy': policy, 'allow_other': ev(allow_other), 'tags': tg, 'visible': ev(visible)}
                nat = replay([case])[0]
                want_rej = ev(violates)
                chk.counterexample(f'tag policy {policy}, allow_other_tags={case["allow_other"]}, tags {tg}, visible={case["visible"]}: registration '
                                   f'{"rejected" if nat.get("rejected") else "accepted"}, statement says {"reject" if want_rej else "accept"}', case,
                                   nat.get('rejected') != want_rej, role='register:tags')
    # ---- path variables vs path parameters, name used for path and query, scalar-ness
    shapes = schema_shapes(b, ex)
    string_schema = shapes[0]
    cases = []
    for path, pnames, qnames in [('/a/{x}', ['x'], []), ('/a/{x}', [], []), ('/a/{x}', ['x', 'y'], []), ('/a/{x}', ['y'], []), ('/a/{x}/{y}', ['y', 'x'], []),
                                 ('/a', [], ['q']), ('/a/{x}', ['x'], ['x']), ('/a/{x}', ['x'], ['q']), ('/a', ['x'], [])]:
        cases.append((path, [('Path', n, string_schema) for n in pnames] + [('Query', n, string_schema) for n in qnames]))
    arr_shape = next(sh for sh in shapes if sh[0] == 'array-of-string')
    # a query parameter named like the trailing wildcard variable (and a control with another name)
    cases.append(('/a/{r:.*}', [('Path', 'r', arr_shape), ('Query', 'r', string_schema)]))
    cases.append(('/a/{r:.*}', [('Path', 'r', arr_shape), ('Query', 'q', string_schema)]))
    cases.append(('/a/{x}/{r:.*}', [('Path', 'x', string_schema), ('Path', 'r', arr_shape), ('Query', 'x', string_schema)]))
    for sh in shapes:
        cases.append(('/a/{x}', [('Path', 'x', sh)]))
        cases.append(('/a', [('Query', 'q', sh)]))
        cases.append(('/a/{r:.*}', [('Path', 'r', sh)]))
    for path, params in cases:
        vis_p = z3.Bool('endpoint_published')          # parameter rules hold for published and unpublished endpoints alike
        def h(ex):
            a = Cell(api(ex, 'Any', True, []))
            ps = [mk_param(ex, kind, n, sh[1], sh[2]) for kind, n, sh in params]
            return ex.call_fn(F_reg, [Ref(a), endpoint(ex, path, ps, [], vis_p)])
        outs = ex.explore(h, [])
        chk.paths += len(outs)
        from props.routerlib import parse_template
        tmpl = parse_template(path)
        pathvars = {n for k, n in tmpl if k in ('var', 'wild')}
        wild = {n for k, n in tmpl if k == 'wild'}
        pparams = [n for kind, n, sh in params if kind == 'Path']
        want_rej = set(pparams) != pathvars
        for kind, n, sh in params:
            if kind == 'Query' and (n in pathvars or not sh[3]): want_rej = True
            if kind == 'Path' and n in pathvars and ((n in wild and not sh[4]) or (n not in wild and not sh[3])): want_rej = True
        tag = f'register/params/{path}/' + '+'.join(f'{kind[0]}:{n}:{sh[0]}' for kind, n, sh in params)
        for pc, (k, r) in outs:
            if k != 'ok':
                m = chk.prove(f'{tag}/no-panic', pc, z3.BoolVal(True))
                if m is not None: chk.mismatches.append(f'_register panics on {tag}: {r}')
                continue
            rejected = r.discr == 1
            n_rej += rejected; n_acc += not rejected
            m = chk.prove(f'{tag}/rejected-iff-parameters-ill-formed', pc, z3.BoolVal(rejected != want_rej))
            if m is not None:
                shape_names = [sh[0] for _, _, sh in params]
                case = {'op': 'register_params', 'path': path, 'params': [[kind, n, sh[0]] for kind, n, sh in params], 'visible': bool(m.eval(vis_p, model_completion=True))}
                nat = replay([case])[0]
                if 'unsupported' in nat:
                    chk.mismatches.append(f'registration of {tag}: {"rejected" if rejected else "accepted"}, statement says {"reject" if want_rej else "accept"} '
                                          f'(no native type for this shape: {nat["unsupported"]})')
                else:
                    chk.counterexample(f'registration of {path} with parameters {case["params"]}: {"rejected" if nat.get("rejected") else "accepted"} natively, '
                                       f'statement says {"reject" if want_rej else "accept"}', case, nat.get('rejected') != want_rej, role='register:params')
    if not n_acc or not n_rej: raise Inconclusive('vacuity: registration validation never accepts / never rejects')
    chk.bounds['registration_validation'] = f'{len(cases)} parameter configurations over {len(shapes)} schema shapes; 9 tag-policy configurations with symbolic tags / flags'
    witnesses(chk)


def witnesses(chk):
    cases = [{'op': 'register_params', 'path': p, 'params': ps} for p, ps in [
        ('/a/{x}', [['Path', 'x', 'string']]), ('/a/{x}', [['Path', 'x', 'object']]), ('/a/{x}', [['Path', 'x', 'oneOf-scalar-and-object']]),
        ('/a', [['Query', 'q', 'oneOf-scalar-and-object']]), ('/a', [['Query', 'q', 'oneOf-scalars']]), ('/a/{r:.*}', [['Path', 'r', 'array-of-string']]),
        ('/a/{r:.*}', [['Path', 'r', 'string']]), ('/a/{x}', [['Path', 'x', 'string'], ['Query', 'x', 'string']]), ('/a/{x}', []), ('/a', [['Path', 'x', 'string']])]]
    want = [False, True, True, True, False, False, True, True, True, True]
    cases += [{'op': 'register_tags', 'policy': p, 'allow_other': ao, 'tags': t, 'visible': v} for p, ao, t, v in [
        ('ExactlyOne', True, [], True), ('ExactlyOne', True, ['x'], True), ('ExactlyOne', True, [], False), ('AtLeastOne', False, ['known-a', 'other-tag'], True), ('Any', False, ['known-a'], True)]]
    want += [True, False, False, True, False]
    res = replay(cases)
    for c, w, r in zip(cases, want, res):
        chk.replayed += 1
        if 'unsupported' in r: continue
        if r.get('rejected') != w:
            chk.counterexample(f'registration {c}: natively {"rejected" if r.get("rejected") else "accepted"}, statement says {"reject" if w else "accept"}', c, True, role='register:wire')
        if len(chk.samples) < 10: chk.samples.append({'registration': c, 'native': r})
    # the same policy written in the arguments of the trait-based API macro: an undeclared tag is refused unless allow_other_tags is given
    c = {'op': 'trait_tags'}
    r = replay([c])[0]
    chk.replayed += 1
    want_t = {'closed_rogue_rejected': True, 'closed_rogue_stub_rejected': True, 'closed_declared_rejected': False, 'open_rogue_rejected': False}
    if {k: r.get(k) for k in want_t} != want_t:
        chk.counterexample(f'trait-based API with declared tags: native {r}, statement says {want_t}', c, True, role='register:trait-tags')

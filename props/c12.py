"""C12 — Typed responses are serialised faithfully with their declared status."""
import itertools
import re

import z3

from mirsym import mir
from mirsym.core import Adt, Cell, Opaque, Panic, PMap, PVec, Ref, SB, SymStr, Tup, Unsupported, dv, StrSort, is_sym
from mirsym.models import BASE_MODELS, val_eq
from mirsym.runner import Check, Inconclusive, replay
from props import httpmodel, strmodel
from props.httpmodel import HMap, HV, JsonText, Response, hv_ok

JSON_KINDS = {'HttpResponseCreated': 201, 'HttpResponseAccepted': 202, 'HttpResponseOk': 200}
EMPTY_KINDS = {'HttpResponseDeleted': 204, 'HttpResponseUpdatedNoContent': 204}
REDIRECTS = {'http_response_found': 302, 'http_response_see_other': 303, 'http_response_temporary_redirect': 307}


def sstr(n): return SymStr(z3.Const(n, StrSort))


class Env:
    json_fails = None
    to_map_fails = None


def m_to_string(ex, args, callee):
    if Env.json_fails is not None and ex.truth(Env.json_fails): return ex.err(Opaque('serde_json::Error'))
    return ex.ok(JsonText(dv(args[0])))


def m_to_value(ex, args, callee):
    # serde_json::to_value can fail where to_string does not (e.g. 128-bit integers): an independent failure
    if ex.truth(z3.FreshConst(z3.BoolSort(), 'to_value_fails')): return ex.err(Opaque('serde_json::Error'))
    return ex.ok(Opaque('json-value', dv(args[0])))


def m_value_to_string(ex, args, callee):
    v = dv(args[0])
    if isinstance(v, Opaque) and v.tag == 'json-value': return JsonText(v.payload)
    raise Unsupported(f'to_string of {v!r}')


def m_to_map(ex, args, callee):
    h = dv(args[0])
    if Env.to_map_fails is not None and ex.truth(Env.to_map_fails): return ex.err(ex.mk_struct('MapError', **{'0': 'cannot serialise'}) if 'MapError' in ex.L.structs else Opaque('MapError'))
    mp = PMap()
    if isinstance(h, Adt) and h.ty in ex.L.structs:
        for name, c in zip(ex.L.structs[h.ty], h.fields[None]): mp.put(name, c.v)
        return ex.ok(mp)
    if isinstance(h, Opaque) and h.tag == 'headers-struct':
        for k, v in h.payload: mp.put(k, v)
        return ex.ok(mp)
    raise Unsupported(f'to_map of {h!r}')


def m_hm_extend(ex, args, callee):
    """HeaderMap::extend(HeaderMap): the first value for a name replaces what is there, later ones append"""
    hm, other = dv(args[0]), dv(args[1])
    seen = set()
    for n, v in other.entries:
        if n not in seen:
            seen.add(n)
            if any(k == n for k, _ in hm.entries):
                i = [k for k, _ in hm.entries].index(n)
                hm.entries = [(k, x) for k, x in hm.entries if k != n]
                hm.entries.insert(i, (n, v))
                continue
        hm.entries.append((n, v))
    return Tup([])


MODELS = [
    (r'^(serde_json::)?to_string::', m_to_string),
    (r'^(serde_json::)?to_value::', m_to_value),
    (r'<(serde_json::)?Value as ToString>::to_string$', m_value_to_string),
    (r'^(to_map::)?to_map::', m_to_map, True),
    (r'HeaderMap as Extend<.*>>::extend::|HeaderMap::<.*>::extend', m_hm_extend),
    (r'<HeaderMap as Default>::default$|<HeaderMap<.*> as Default>::default$', lambda ex, a, c: HMap()),
]


# ------------------------------------------------------------------------------------------ to_map.rs executed from MIR
class SerStruct:
    """a value of a `#[derive(Serialize)] struct` with named fields: [(key, kind, value)], kind in str | u32 | bool | none | some | seq | struct"""
    def __init__(self, fields): self.fields = fields
    def __repr__(self): return f'SerStruct{[(k, kind) for k, kind, _ in self.fields]}'


class SerValue:
    def __init__(self, kind, value=None): self.kind, self.value = kind, value
    def __repr__(self): return f'SerValue({self.kind})'


def serializer_fn(ex, ser, method, ty=None):
    """the method of the serde::Serializer / SerializeStruct impl (in to_map.rs) for the serializer value at hand"""
    s = dv(ser)
    if ty is None: ty = s.ty if isinstance(s, Adt) else None
    if ty is None: raise Unsupported(f'serializer {s!r}')
    cands = [n for n in ex.fns if re.search(r'to_map::<impl at [^>]*>::' + method + '$', n) and re.search(r'(^|[^\w])' + ty + r'\b', ex.fns[n].locals.get('_1', ''))]
    if len(cands) != 1: raise Unsupported(f'cannot locate {ty}::{method}: {cands}')
    return cands[0]


def m_derived_serialize(ex, args, callee):
    """what `#[derive(Serialize)]` expands to (serde's documented data model): a struct with named fields announces itself with
    serialize_struct, hands every field in declaration order to SerializeStruct::serialize_field and finishes with end(); a String is
    serialize_str, an integer serialize_<ty>, Option::None serialize_none, Some(v) serialize_some(&v), a Vec serialize_seq"""
    v, ser = dv(args[0]), args[1]
    sty = re.search(r'serialize::<&mut (?:\w+::)*(\w+)', callee).group(1)
    def sfn(ex, ser, method): return serializer_fn(ex, ser, method, sty if ser is args[1] else None)
    if isinstance(v, SymStr) or isinstance(v, str): v = SerValue('str', v)
    if isinstance(v, SerStruct):
        r = ex.call_fn(sfn(ex, ser, 'serialize_struct'), [ser, 'Headers', len(v.fields)])
        if r.discr == 1: return r
        st = Cell(ex.payload(r))
        F_field, F_end = sfn(ex, st.v, 'serialize_field'), sfn(ex, st.v, 'end')
        for key, kind, val in v.fields:
            r = ex.call_fn(F_field, [Ref(st), key, Ref(Cell(SerValue(kind, val)))])
            if r.discr == 1: return r
        return ex.call_fn(F_end, [st.v])
    if isinstance(v, SerValue):
        if v.kind == 'str': return ex.call_fn(sfn(ex, ser, 'serialize_str'), [ser, v.value])
        if v.kind in ('u32', 'bool'): return ex.call_fn(sfn(ex, ser, 'serialize_' + v.kind), [ser, v.value])
        if v.kind == 'none': return ex.call_fn(sfn(ex, ser, 'serialize_none'), [ser])
        if v.kind == 'some': return ex.call_fn(sfn(ex, ser, 'serialize_some'), [ser, Ref(Cell(v.value))])
        if v.kind == 'seq': return ex.call_fn(sfn(ex, ser, 'serialize_seq'), [ser, ex.some(1)])
        if v.kind == 'struct': return ex.call_fn(sfn(ex, ser, 'serialize_struct'), [ser, 'Inner', 1])
    raise Unsupported(f'derived Serialize of {v!r}')


def to_map_real(chk, ex):
    """to_map.rs: a struct of string fields becomes exactly the map field-name -> value (every field, empty values included); anything
    that is not a flat struct of strings is an error"""
    F = mir.find(ex.fns, r'^(to_map::)?to_map$')
    a, b_ = sstr('header_value_a'), sstr('header_value_b')
    shapes = [('empty-struct', [], True), ('one', [('x-a', 'str', a)], True), ('two', [('x-a', 'str', a), ('x-b', 'str', b_)], True), ('two-swapped', [('x-b', 'str', b_), ('x-a', 'str', a)], True),
              ('literal-empty', [('x-a', 'str', ''), ('x-b', 'str', b_)], True),
              ('number', [('x-a', 'str', a), ('x-n', 'u32', z3.BitVec('n', 32))], False), ('bool', [('x-f', 'bool', z3.Bool('flag'))], False),
              ('none', [('x-a', 'str', a), ('x-o', 'none', None)], False), ('some', [('x-o', 'some', SerValue('str', b_))], False), ('seq', [('x-s', 'seq', None)], False),
              ('nested', [('x-i', 'struct', None)], False)]
    size_t = z3.BitVec('size_of_the_header_struct', 64)      # nothing is known about the memory size of a header type (it can be zero)
    local = [(r'^<T as Serialize>::serialize::<', m_derived_serialize), (r'^(std::|core::)?mem::size_of::<T>$', lambda ex, a, c: size_t)]
    for name, fields, flat in shapes:
        saved = ex.models
        ex.models = local + [m for m in ex.models if not ('to_map' in m[0] and len(m) > 2)]
        try:
            outs = ex.explore(lambda ex: ex.call_fn(F, [Ref(Cell(SerStruct(fields)))]), [])
        except Unsupported as e:
            ex.unsupported_paths.append(f'to_map/{name}: {e}'); continue
        finally:
            ex.models = saved
        chk.paths += len(outs)
        if not outs: raise Inconclusive(f'vacuity: to_map has no path for {name}; {ex.unsupported_paths[-2:]}')
        for pc, (k, r) in outs:
            if k != 'ok':
                m = chk.prove(f'to_map/{name}/no-panic', pc, z3.BoolVal(True))
                if m is not None: chk.mismatches.append(f'to_map panics on {name}: {r}')
                continue
            if flat:
                good = r.discr == 0 and isinstance(dv(ex.payload(r)), PMap)
                if good:
                    got = {k_: dv(c.v) for k_, c in dv(ex.payload(r)).items}
                    good = set(got) == {k_ for k_, _, _ in fields} and all((got[k_] is v) or (isinstance(v, SymStr) and isinstance(got[k_], SymStr) and got[k_].term.eq(v.term)) or
                                                                        (isinstance(v, str) and got[k_] == v) for k_, _, v in fields)
                m = chk.prove(f'to_map/{name}/every-field-with-its-value', pc, z3.BoolVal(not good))
                if m is not None:
                    from mirsym.models import StrLen
                    vals = []
                    for k_, _, v in fields:
                        if isinstance(v, str): vals.append(v)
                        else:
                            L = m.eval(StrLen(v.term), model_completion=True).as_long()
                            vals.append('v' * min(L, 8))
                    case = {'op': 'response_headers', 'declared': [k_ for k_, _, _ in fields][:2], 'explicit': [], 'declared_values': vals[:2]}
                    if m.eval(size_t, model_completion=True).as_long() == 0 and fields:
                        case = {'op': 'response_headers', 'declared': [], 'explicit': [], 'zero_sized': True}
                    if len(fields) == 2 and fields[0][0] == 'x-b': case['declared_values'] = vals[::-1]; case['declared'] = ['x-a', 'x-b']
                    nat = replay([case])[0]
                    chk.counterexample(f'to_map({name}) returned {r}; declared headers {"of a zero-sized header struct" if case.get("zero_sized") else list(zip(case["declared"], case["declared_values"]))} -> native {nat}', case,
                                       not nat.get('as_specified', False), role='to_map')
            else:
                m = chk.prove(f'to_map/{name}/refused', pc, z3.BoolVal(r.discr != 1))
                if m is not None: chk.mismatches.append(f'to_map accepts a header struct with a non-string field ({name}): {r} (not reachable through a compiled endpoint: confirmed only symbolically)')


def body_of(resp):
    return resp.body.payload if isinstance(resp.body, Opaque) and resp.body.tag == 'body' else resp.body


def run(tier, replay_file=None):
    chk = Check('C12', tier)
    ex = chk.load(MODELS + httpmodel.MODELS + BASE_MODELS)
    ex.const_models.append(httpmodel.const_model)
    f = ex.fns
    chk.bounds = {'response_kinds': list(JSON_KINDS) + list(EMPTY_KINDS) + list(REDIRECTS) + ['HttpResponseHeaders<_, H>'],
                  'body': 'opaque value of any type (JSON rendering uninterpreted; serialisation may fail)',
                  'headers': '<=2 declared header fields, <=2 explicit headers, every coincidence pattern of names; values opaque strings with symbolic validity',
                  'location': 'opaque string with symbolic header-value validity'}
    chk.assumptions = ['serde_json::to_string(v) renders v and its output parses back to v (round-trip axiom); it may fail',
                       'to_map(&H) yields the declared header fields by name (its serde machinery is third-party driven)',
                       'HeaderMap insert/extend/append and response::Builder implement their documentation']

    def from_impl(ty):
        c = [n for n in f if re.search(r'handler::<impl at [^>]*>::from$', n) and re.match(r'^' + ty + r'(<T>)?$', f[n].locals.get('_1', ''))]
        if len(c) != 1: raise Inconclusive(f'cannot locate From<{ty}> for HttpHandlerResult: {c}')
        return c[0]

    payload = Opaque('payload')
    jf = z3.Bool('json_fails')
    # ---- JSON kinds
    for ty, code in JSON_KINDS.items():
        F = from_impl(ty)
        def h(ex):
            Env.json_fails = jf
            return ex.call_fn(F, [Adt(ty, 0, {None: [Cell(payload)]})])
        outs = ex.explore(h, [])
        chk.paths += len(outs)
        n_ok = 0
        for pc, (k, r) in outs:
            if k != 'ok':
                m = chk.prove(f'{ty}/no-panic', pc, z3.BoolVal(True)); report(chk, m, ty, f'{ty} panicked: {r}'); continue
            if r.discr == 1:
                st = httpmodel.status_of(ex, ex.payload(r))
                m = chk.prove(f'{ty}/error-only-if-serialisation-fails', pc, z3.Or(z3.Not(jf), z3.BoolVal(not (isinstance(st, int) and 500 <= st <= 599))))
                report(chk, m, ty, f'{ty} failed ({st}) although the value serialises'); continue
            n_ok += 1
            resp = ex.payload(r)
            b = body_of(resp)
            ct = [dv(v.content) for n, v in resp.headers.entries if n == 'content-type']
            good = isinstance(resp, Response) and resp.status == code and ct == ['application/json'] and isinstance(b, JsonText) and b.value is payload \
                and len(resp.headers.entries) == 1
            m = chk.prove(f'{ty}/status-content-type-body', pc, z3.BoolVal(not good))
            report(chk, m, ty, f'{ty} produced {resp}')
        if not n_ok: raise Inconclusive(f'vacuity: {ty} never succeeds')

    # ---- empty kinds
    for ty, code in EMPTY_KINDS.items():
        F = from_impl(ty)
        outs = ex.explore(lambda ex: ex.call_fn(F, [Adt(ty, 0, {None: []})]), [])
        chk.paths += len(outs)
        for pc, (k, r) in outs:
            good = k == 'ok' and r.discr == 0 and ex.payload(r).status == code and body_of(ex.payload(r)) is None and not ex.payload(r).headers.entries
            m = chk.prove(f'{ty}/status-empty-body', pc, z3.BoolVal(not good))
            report(chk, m, ty, f'{ty} produced {r}')

    # ---- redirects: constructor validates Location, response carries it
    F_to_result = [n for n in f if re.search(r'handler::<impl at [^>]*>::to_result$', n) and 'HttpResponseHeaders' in f[n].locals.get('_1', '')][0]
    tmf = z3.Bool('to_map_fails')
    # the location either opaque (any text; legality = an uninterpreted predicate) or as bytes (<= NLOC ASCII bytes; legality = the http
    # crate's byte rule), so that a hand-written validity test that differs from HeaderValue's at some byte is seen
    NLOC = 2 if tier == 'quick' else 4
    locs_ = [sstr('location')] + [SB([z3.BitVec(f'loc{i}', 8) for i in range(n_)]) for n_ in range(NLOC + 1)]
    for fn, code in REDIRECTS.items():
      for loc in locs_:
        F = mir.find(f, r'(^|::)' + fn + '$')
        bounded = isinstance(loc, SB)
        legal = httpmodel.hv_bytes_ok(loc.bs) if bounded else hv_ok(loc.term)
        base_l = [z3.ULT(b, 128) for b in loc.bs] if bounded else []
        same = (lambda v: v is loc) if bounded else (lambda v: isinstance(v, SymStr) and v.term.eq(loc.term))
        tagf = fn + (f'/bytes{len(loc.bs)}' if bounded else '')
        def h(ex):
            Env.to_map_fails = False
            r = ex.call_fn(F, [loc])
            if r.discr == 1: return ('ctor-err', httpmodel.status_of(ex, ex.payload(r)), ex.payload(r))
            return ('resp', ex.call_fn(F_to_result, [ex.payload(r)]))
        saved = ex.models
        if bounded: ex.models = strmodel.MODELS + ex.models
        try:
            outs = ex.explore(h, base_l)
        except Unsupported as e:
            # the opaque variant cannot follow byte-level code; the bounded variants below can (fail closed if they cannot either)
            if bounded: raise
            ex.unsupported_paths.append(f'{tagf}: {e}'); outs = []
        finally:
            ex.models = saved
        chk.paths += len(outs)
        seen = set()
        def rep(m, what):
            if m is None: return
            if not bounded and 'panicked' in what:
                # a panic while refusing a location: replay a family of long illegal locations with multi-byte characters at every offset
                cases_ = [{'op': 'response', 'kind': fn, 'location': '/' + 'a' * k + '\u00e9\u20ac\n' + 'b' * 300} for k in list(range(120, 132)) + list(range(250, 260))]
                nats = replay(cases_)
                bad_ = [c_['location'][:4] + f'..(k={len(c_["location"])})' for c_, n_ in zip(cases_, nats) if not n_.get('as_specified')]
                chk.counterexample(f'{what}; long illegal locations natively: {[str(n_)[:80] for n_ in nats if not n_.get("as_specified")][:3]}', cases_[0], bool(bad_), role='response:' + fn + ':panic')
                return
            if not bounded: report(chk, m, fn, what); return
            text = bytes(m.eval(b, model_completion=True).as_long() for b in loc.bs).decode('ascii')
            case = {'op': 'response', 'kind': fn, 'location': text}
            nat = replay([case])[0]
            chk.counterexample(f'{what}; location {text!r} -> native {nat}', case, not nat.get('as_specified', False), role='response:' + fn + ':bytes')
        for pc, (k, r) in outs:
            if k != 'ok':
                m = chk.prove(f'{tagf}/no-panic', pc, z3.BoolVal(True), extra=base_l); rep(m, f'{fn} panicked: {r}'); continue
            seen.add(r[0])
            if r[0] == 'ctor-err':
                st = r[1]
                m = chk.prove(f'{tagf}/refused-only-if-location-illegal', pc, z3.Or(legal, z3.BoolVal(not (isinstance(st, int) and 500 <= st <= 599))), extra=base_l)
                rep(m, f'{fn} refused a legal location ({st})'); continue
            rr = r[1]
            if rr.discr == 1:
                m = chk.prove(f'{tagf}/legal-location-is-sent', pc, z3.BoolVal(True), extra=base_l)
                rep(m, f'{fn}: to_result failed for an accepted location: {rr}'); continue
            resp = ex.payload(rr)
            locs = [v.content for n, v in resp.headers.entries if n == 'location']
            good = resp.status == code and body_of(resp) is None and len(locs) == 1 and same(dv(locs[0])) and len(resp.headers.entries) == 1
            m = chk.prove(f'{tagf}/status-location-empty-body', pc, z3.Or(z3.BoolVal(not good), z3.Not(legal)), extra=base_l)
            rep(m, f'{fn} produced {resp}')
        if not bounded and seen != {'ctor-err', 'resp'}: chk.mismatches.append(f'vacuity: {fn} outcomes {seen} for an opaque location; unsupported: {ex.unsupported_paths[-2:]}')
        if bounded and 'resp' not in seen: raise Inconclusive(f'vacuity: {tagf} never answers; unsupported: {ex.unsupported_paths[-2:]}')

    # ---- declared + explicit headers
    names = ['x-a', 'x-b']
    plans = []
    for declared in ([], ['x-a'], ['x-a', 'x-b'], ['X-Upper']):       # serde names can be mixed case: header names are case-insensitive, sent in lower case
        for explicit in ([], ['x-a'], ['x-c'], ['x-a', 'x-a'], ['x-b', 'x-a'], ['x-c', 'x-c']):
            plans.append((declared, explicit))
    if tier == 'quick': plans = plans[::1]
    F_ok_from = from_impl('HttpResponseOk')
    for declared, explicit in plans:
        dvals = [sstr(f'declared_{i}') for i in range(len(declared))]
        evals = [sstr(f'explicit_{i}') for i in range(len(explicit))]
        base = [hv_ok(v.term) for v in evals]          # explicit headers were accepted by HeaderMap when the handler added them
        def h(ex):
            Env.json_fails, Env.to_map_fails = False, tmf
            hs = Opaque('headers-struct', list(zip(declared, dvals)))
            other = HMap([(n, HV(v)) for n, v in zip(explicit, evals)])
            rh = ex.mk_struct('HttpResponseHeaders', body=Adt('HttpResponseOk', 0, {None: [Cell(payload)]}), structured_headers=hs, other_headers=other)
            return ex.call_fn(F_to_result, [rh])
        outs = ex.explore(h, base)
        chk.paths += len(outs)
        tag = f'headers/{"+".join(declared) or "none"}/{"+".join(explicit) or "none"}'
        for pc, (k, r) in outs:
            if k != 'ok':
                m = chk.prove(f'{tag}/no-panic', pc, z3.BoolVal(True), extra=base); report_headers(chk, m, declared, explicit, f'to_result panicked: {r}'); continue
            all_ok = z3.And([hv_ok(v.term) for v in dvals] + [z3.Not(tmf)])
            if r.discr == 1:
                st = httpmodel.status_of(ex, ex.payload(r))
                m = chk.prove(f'{tag}/error-only-for-illegal-declared-value', pc, z3.Or(all_ok, z3.BoolVal(not (isinstance(st, int) and 500 <= st <= 599))), extra=base)
                report_headers(chk, m, declared, explicit, f'to_result failed ({st}) although every header is legal'); continue
            resp = ex.payload(r)
            got = [(n, v.content) for n, v in resp.headers.entries if n != 'content-type']
            want = []
            for n, v in zip(declared, dvals):
                if n.lower() not in explicit: want.append((n.lower(), v))
            # explicit headers: all of them, in the order given; they replace declared ones of the same name
            exp_part = [(n, v) for n, v in zip(explicit, evals)]
            def multiset(xs): return sorted((n, str(v.term)) for n, v in xs)
            good = resp.status == 200 and multiset([(n, v) for n, v in got if isinstance(v, SymStr)]) == multiset(want + exp_part) and len(got) == len(want) + len(exp_part)
            # per name, explicit values keep their order
            for n in set(explicit):
                g = [str(v.term) for k2, v in got if k2 == n]
                w = [str(v.term) for k2, v in exp_part if k2 == n]
                good = good and g == w
            m = chk.prove(f'{tag}/declared-sent-explicit-override', pc, z3.BoolVal(not good), extra=base)
            report_headers(chk, m, declared, explicit, f'headers sent: {got}; declared {declared}, explicit {explicit}')

    to_map_real(chk, ex)
    witnesses(chk)
    return chk.finish('one obligation per (response kind / header plan, execution path, clause)')


def report(chk, m, kind, what):
    if m is None: return
    case = {'op': 'response', 'kind': kind}
    nat = replay([case])[0]
    chk.counterexample(f'{what} -> native {nat}', case, not nat.get('as_specified', False), role='response:' + kind)


def report_headers(chk, m, declared, explicit, what):
    if m is None: return
    case = {'op': 'response_headers', 'declared': declared, 'explicit': explicit}
    nat = replay([case])[0]
    chk.counterexample(f'{what} -> native {nat}', case, not nat.get('as_specified', False), role='response-headers')


def witnesses(chk):
    cases = [{'op': 'response', 'kind': k} for k in list(JSON_KINDS) + list(EMPTY_KINDS) + list(REDIRECTS)] + \
            [{'op': 'response', 'kind': 'http_response_found', 'location': 'bad\nlocation'}, {'op': 'response', 'kind': 'http_response_see_other', 'location': '/a\tb'},
             {'op': 'response', 'kind': 'http_response_temporary_redirect', 'location': '/caf\u00e9'}, {'op': 'response', 'kind': 'http_response_found', 'location': 'x\x7f'},
             {'op': 'response_headers', 'declared': ['x-a', 'x-b'], 'explicit': [], 'declared_values': ['', 'v']},
             {'op': 'response_headers', 'declared': ['x-a'], 'explicit': ['x-c'], 'declared_values': ['a\tb']}] + \
            [{'op': 'response_headers', 'declared': d, 'explicit': e} for d, e in
             [([], []), (['x-a'], []), (['x-a'], ['x-a']), (['x-a', 'x-b'], ['x-b', 'x-c']), (['x-a'], ['x-a', 'x-a'])]]
    res = replay(cases)
    for c, r in zip(cases, res):
        chk.replayed += 1
        if not r.get('as_specified'):
            chk.counterexample(f'{c}: native {r}', c, True, role='wire:' + c['op'])
        if len(chk.samples) < 8: chk.samples.append({'case': c, 'native': r})

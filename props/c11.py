"""C11 — Request bodies larger than the limit are never delivered."""
import itertools
import re
import os

import z3

from mirsym import mir, refeval
from mirsym.core import Adt, Cell, Opaque, Panic, PVec, Ref, Tup, Unsupported, dv, zand, zor, znot, zbool
from mirsym.models import BASE_MODELS
from mirsym.runner import Check, Inconclusive, parallel, replay
from props import asyncmodel as AM, httpmodel
from props.asyncmodel import Body, Bytes, Yielder

ENC = {'int': False}          # lengths and limits as 64-bit vectors, or as mathematical integers in [0, 2^64) (same semantics, other theory)


def BV(n): return z3.Int(n) if ENC['int'] else z3.BitVec(n, 64)
def zero(): return z3.IntVal(0) if ENC['int'] else z3.BitVecVal(0, 64)
def is_len(x): return z3.is_bv(x) or z3.is_int(x)
def ule(a, b): return (a <= b) if (z3.is_int(a) or z3.is_int(b)) else z3.ULE(a, b)
def ugt(a, b): return (a > b) if (z3.is_int(a) or z3.is_int(b)) else z3.UGT(a, b)
def in_range(xs): return [z3.And(x >= 0, x < (1 << 64)) for x in xs if z3.is_int(x)]


def spec_stream(script, cap, decide):
    """the statement: data frames in order until the running total would exceed the limit; then (after draining) exactly
    one 4xx error and nothing more; a transport error ends the stream with a 4xx error too.
    -> list of ('ok', Bytes) | ('err',)"""
    out, read = [], zero()
    for i, fr in enumerate(script):
        if fr[0] == 'trailers': continue
        if fr[0] == 'error':
            out.append(('err',)); return out
        b = fr[1]
        if decide(ugt(read + b.len, cap)):
            out.append(('err',)); return out
        read = read + b.len
        out.append(('ok', b))
    return out


def describe_emitted(ex, emitted):
    out = []
    for e in emitted:
        if e.discr == 0: out.append(('ok', ex.payload(e)))
        else: out.append(('err', httpmodel.status_of(ex, ex.payload(e))))
    return out


def shapes(kmax):
    for k in range(kmax + 1):
        for kinds in itertools.product(('data', 'trailers', 'error'), repeat=k):
            if kinds.count('error') > 1 or kinds.count('trailers') > 1: continue
            yield kinds


def mk_script(kinds):
    script, lens = [], []
    for i, kd in enumerate(kinds):
        if kd == 'data':
            l = BV(f'len{i}'); lens.append(l); script.append(('data', Bytes(f'chunk{i}', l)))
        else:
            script.append((kd,))
    return script, lens


def total(lens):
    t = zero()
    for l in lens: t = t + l
    return t


def no_overflow(lens):
    """a body cannot be longer than the address space: every prefix sum fits in 63 bits"""
    if ENC['int']:
        out, acc = in_range(lens), z3.IntVal(0)
        for l in lens:
            acc = acc + l
            out.append(acc < (1 << 63))
        return out
    out, acc = [], z3.BitVecVal(0, 65)
    for l in lens:
        acc = acc + z3.ZeroExt(1, l)
        out.append(z3.ULT(acc, z3.BitVecVal(1 << 63, 65)))
    return out


def run(tier, replay_file=None):
    chk = Check('C11', tier)
    ex = chk.load(AM.MODELS + httpmodel.MODELS + BASE_MODELS, loop_bound=40)
    ex.const_models.append(httpmodel.const_model)
    # request parts / header text models shared with C10 (a body extractor may look at the request's headers)
    from props import c10
    ex.models = [m for m in c10.MODELS if 'into_parts' in m[0] or 'parse' in m[0] or 'trim' in m[0]] + ex.models
    import glob, re as _re
    from mirsym.runner import REPO
    hv_ = _re.search(r'name = "http"\nversion = "([^"]+)"', open(os.path.join(REPO, 'Cargo.lock')).read()).group(1)
    for p_ in glob.glob(os.path.expanduser(f'~/.cargo/registry/src/*/http-{hv_}/src/request.rs')): ex.L.add_source(p_, only={'Parts'})
    ex._parts_loaded = True
    f = ex.fns
    F_limit = mir.find(f, r'handler::<impl at [^>]*>::request_body_max_bytes$')
    F_into_stream = mir.find(f, r'extractor::body::<impl at [^>]*>::into_stream$')
    F_untyped = [n for n in mir.find(f, r'extractor::body::<impl at [^>]*>::from_request$', unique=False)
                 if 'UntypedBody' in f[n].ret][0]
    F_streaming = [n for n in mir.find(f, r'extractor::body::<impl at [^>]*>::from_request$', unique=False)
                   if 'StreamingBody' in f[n].ret or ('Self' in f[n].ret and 'StreamingBody' in ex.R.impl_of(n)[1])]
    kmax = 4
    chk.bounds = {'frames_per_body': f'0..{kmax} (each: data of symbolic 64-bit length | trailers | transport error; <=1 error, <=1 trailers)',
                  'limits': 'server default and per-endpoint override: unconstrained 64-bit values',
                  'outside': 'HTTP framing / chunk decoding (hyper); byte contents (chunks are tracked by identity)'}
    chk.assumptions = ['the sum of the frame lengths of one body is below 2^63 (a body cannot be longer than memory); '
                       'without it `bytes_read + len` can overflow — reported as an informational obligation',
                       'models of http_body_util Frame future, async-stream yielder, futures try_fold (props/asyncmodel.py)']
    def one_encoding(enc, kmax, with_router_part):
        ENC['int'] = enc == 'int'
        chk.name_prefix = enc + '/'
        incon = []
        dflt, ovr, cap = BV('server_default'), BV('endpoint_override'), BV('cap')
        rng = in_range([dflt, ovr, cap])

        def mk_rqctx(ex, has_override):
            server = ex.mk_struct_partial('DropshotState', config=ex.mk_struct_partial('ServerConfig', default_request_body_max_bytes=dflt))
            endpoint = ex.mk_struct_partial('RequestEndpointMetadata', request_body_max_bytes=ex.some(ovr) if has_override else ex.none())
            return ex.mk_struct_partial('RequestContext', server=Ref(Cell(server)), endpoint=endpoint)

        # ---- (1) effective limit
        for has in (False, True):
            outs = ex.explore(lambda ex: ex.call_fn(F_limit, [Ref(Cell(mk_rqctx(ex, has)))]), [])
            chk.paths += len(outs)
            for pc, (k, r) in outs:
                if k != 'ok': raise Inconclusive(f'request_body_max_bytes panicked: {r}')
                want = ovr if has else dflt
                if not is_len(r): raise Inconclusive(f'request_body_max_bytes returned {r!r}')
                m = chk.prove(f'limit/{"override" if has else "default"}', pc, r != want)
                if m is not None:
                    report_limit(chk, m, has, dflt, ovr)

        import time as _t
        _ph = {'limit': round(_t.time() - chk.t0, 1)}
        # ---- (2) streaming
        small = lambda lens, c: [ule(l, 64) for l in lens] + [ule(c, 256)]      # replay-friendly models preferred
        def stream_task(chk, kinds):
            n_err_paths = n_ok_paths = 0
            script0, lens = mk_script(kinds)
            assume = no_overflow(lens) + rng
            def h(ex):
                Yielder.emitted = []
                body = Body(script0)
                sb = ex.mk_struct('StreamingBody', body=body, cap=cap)
                st = ex.call_fn(F_into_stream, [sb])
                for _ in range(len(script0) + 3):
                    if AM.stream_next(ex, st) is None: break
                else:
                    raise Unsupported('stream did not end')
                return describe_emitted(ex, Yielder.emitted), body.pos
            outs = ex.explore(h, assume)
            chk.paths += len(outs)
            for pc, (k, r) in outs:
                if k != 'ok':
                    m = chk.prove(f'stream/{"-".join(kinds)}/no-panic', pc, z3.BoolVal(True), extra=assume)
                    report_stream(chk, m, kinds, lens, cap, f'into_stream panicked: {r}')
                    continue
                emitted, consumed = r
                def then(pc2, spec, emitted=emitted, consumed=consumed):
                    nonlocal n_err_paths, n_ok_paths
                    same = len(spec) == len(emitted) and all(
                        (s[0] == 'ok' and e[0] == 'ok' and s[1] is e[1]) or (s[0] == 'err' and e[0] == 'err' and isinstance(e[1], int) and 400 <= e[1] <= 499)
                        for s, e in zip(spec, emitted))
                    m = chk.prove(f'stream/{"-".join(kinds)}/emitted-as-specified', pc2, z3.BoolVal(not same), extra=assume, prefer=small(lens, cap))
                    if m is not None:
                        report_stream(chk, m, kinds, lens, cap, f'stream emitted {emitted}, statement says {spec}')
                        return
                    delivered = total([e[1].len for e in emitted if e[0] == 'ok'])
                    m = chk.prove(f'stream/{"-".join(kinds)}/delivered-at-most-limit', pc2, ugt(delivered, cap), extra=assume, prefer=small(lens, cap))
                    if m is not None: report_stream(chk, m, kinds, lens, cap, 'more bytes delivered than the limit')
                    has_err = any(e[0] == 'err' for e in emitted)
                    if has_err:
                        n_err_paths += 1
                        # an oversize body is drained before the error is reported
                        if 'error' not in kinds and consumed != len(kinds):
                            m = chk.prove(f'stream/{"-".join(kinds)}/oversize-body-drained', pc2, z3.BoolVal(True), extra=assume)
                            report_stream(chk, m, kinds, lens, cap, f'only {consumed} of {len(kinds)} frames consumed before refusing')
                    else:
                        n_ok_paths += 1
                        m = chk.prove(f'stream/{"-".join(kinds)}/within-limit-delivered-intact', pc2,
                                      z3.Or(delivered != total(lens), ugt(total(lens), cap)), extra=assume)
                        if m is not None: report_stream(chk, m, kinds, lens, cap, 'body within the limit not delivered intact')
                refeval.under(list(pc) + assume, lambda d: spec_stream(script0, cap, d), then, Inconclusive)
            return {'err': n_err_paths, 'ok': n_ok_paths}
        extras, inc = parallel(chk, list(shapes(kmax)), stream_task); incon += inc
        n_err_paths, n_ok_paths = sum(e.get('err', 0) for e in extras), sum(e.get('ok', 0) for e in extras)
        if not n_err_paths or not n_ok_paths: raise Inconclusive('vacuity: no refusing / no accepting stream path')

        _ph['stream'] = round(_t.time() - chk.t0, 1)
        # ---- (3) buffered extractor (UntypedBody): Ok iff the stream has no error; content = all data chunks in order; cap = effective limit
        declared, declared_present = c10.NumStr('declared_content_length'), z3.Bool('content_length_header_present')
        def untyped_task(chk, task):
                kinds, has = task
                script0, lens = mk_script(kinds)
                assume = no_overflow(lens) + rng
                eff = ovr if has else dflt
                def h(ex):
                    Yielder.emitted = []
                    body = Body(script0)
                    # whatever the client declared in Content-Length (it may disagree with a chunked body: hyper then decodes the chunks and leaves the header)
                    hdrs = httpmodel.HMap([] if ENC['int'] else [('content-length', httpmodel.HV(declared, True, declared_present))])
                    req = httpmodel.Request(headers=hdrs, body=body)
                    fut = ex.call_fn(F_untyped, [Ref(Cell(mk_rqctx(ex, has))), req])
                    cell = AM.pinned(fut)
                    if isinstance(cell.v, Ref): cell = cell.v.cell
                    r = AM.drive(ex, cell)
                    if r.discr == 0:
                        content = ex.field(ex.payload(r), 'content').v
                        return ('ok', list(dv(content).chunks))
                    return ('err', httpmodel.status_of(ex, ex.payload(r)))
                outs = ex.explore(h, assume)
                chk.paths += len(outs)
                for pc, (k, r) in outs:
                    if k != 'ok':
                        m = chk.prove(f'untyped/{"-".join(kinds)}/no-panic', pc, z3.BoolVal(True), extra=assume)
                        report_stream(chk, m, kinds, lens, eff, f'UntypedBody::from_request panicked: {r}')
                        continue
                    def then(pc2, spec, r=r):
                        spec_err = any(s[0] == 'err' for s in spec)
                        if spec_err:
                            good = r[0] == 'err' and isinstance(r[1], int) and 400 <= r[1] <= 499
                        else:
                            good = r[0] == 'ok' and len(r[1]) == len(spec) and all(a is s[1] for a, s in zip(r[1], spec))
                        m = chk.prove(f'untyped/{"-".join(kinds)}/{"override" if has else "default"}/as-specified', pc2, z3.BoolVal(not good), extra=assume, prefer=[ule(l, 64) for l in lens] + [ule(dflt, 256), ule(ovr, 256)])
                        if m is not None:
                            report_stream(chk, m, kinds, lens, eff, f'buffered extractor returned {r}, statement says {spec}', dflt=dflt, ovr=ovr if has else None,
                                          declared=None if ENC['int'] else (declared, declared_present))
                    refeval.under(list(pc) + assume, lambda d: spec_stream(script0, eff, d), then, Inconclusive)
        extras, inc = parallel(chk, [(k_, h_) for k_ in shapes(min(kmax, 5 if ENC['int'] else 3)) for h_ in (False, True)], untyped_task); incon += inc

        _ph['untyped'] = round(_t.time() - chk.t0, 1)
        if not with_router_part: return incon + part_multipart(chk, ex, mk_rqctx, dflt, ovr, min(kmax, 5))
        # ---- (4) the override reaches the request: lookup_route hands out the matched endpoint's own limit (router.rs), whatever
        #          else is registered for the same path / method in other version ranges or behind a wildcard
        from props import router_run, routerlib as RL, vermodel
        saved = ex.models
        ex.models = vermodel.MODELS + RL.ROUTER_MODELS + ex.models
        try:
            R = RL.Router(chk, ex)
            tables = [[('PUT', '/a', 'Until'), ('PUT', '/a', 'From')], [('PUT', '/a', 'From'), ('PUT', '/a', 'Until'), ('GET', '/a', 'All')],
                      [('PUT', '/a/{r:.*}', 'From'), ('PUT', '/a', 'Until'), ('PUT', '/a/{r:.*}', 'Until')], [('PUT', '/{x}', 'FromUntil'), ('PUT', '/{x}', 'FromUntil'), ('PUT', '/{x}/b', 'All')]]
            n0 = len(chk.obligations)
            def table_task(chk, task):
                ti, spec = task
                tr = router_run.TableRun(chk, ex, R, spec, 'C11', 2, f'carried/t{ti}')
                tr.run(list(itertools.permutations(range(len(spec)))))
            extras, inc = parallel(chk, list(enumerate(tables)), table_task); incon += inc
            if len(chk.obligations) - n0 < 20 and not inc: raise Inconclusive('vacuity: too few lookup paths in the limit-carrying part')
        finally:
            ex.models = saved

        _ph['carried'] = round(_t.time() - chk.t0, 1)
        # ---- (5) the multipart extractor: what it hands to the multipart parser is the body through the same cap (effective limit)
        incon += part_multipart(chk, ex, mk_rqctx, dflt, ovr, min(kmax, 3))
        return incon

        _ph['multipart'] = round(_t.time() - chk.t0, 1)

    # ---- (0) the builder that sets the per-endpoint override: the value in force is the one set last
    from props.routerlib import Endpoint as _Endpoint
    Fb = [n for n in f if re.search(r'^api_description::<impl at [^>]*>::request_body_max_bytes$', n)]
    if len(Fb) != 1: raise Inconclusive(f'cannot locate ApiEndpoint::request_body_max_bytes: {Fb}')
    b1, b2 = z3.BitVec('first_override', 64), z3.BitVec('second_override', 64)
    for initial in (False, True):
        def hb(ex):
            e = _Endpoint(0, 'PUT', '/a', 'All', max_bytes=(z3.BitVec('attribute_override', 64) if initial else None)).mk(ex)
            e = ex.call_fn(Fb[0], [e, b1])
            e = ex.call_fn(Fb[0], [e, b2])
            return ex.field(e, 'request_body_max_bytes').v
        outs = ex.explore(hb, [])
        chk.paths += len(outs)
        for pc, (k, r) in outs:
            good = k == 'ok' and isinstance(r, Adt) and r.discr == 1 and z3.is_expr(ex.payload(r))
            m = chk.prove(f'builder/{"attribute-then-" if initial else ""}twice/last-override-wins', pc, z3.BoolVal(True) if not good else ex.payload(r) != b2)
            if m is not None:
                v1, v2 = concrete(m, b1) % 4096, concrete(m, b2) % 4096
                if v1 == v2: v2 = (v1 + 7) % 4096
                case = {'op': 'body', 'chunks': [max(v1, v2)], 'default': 5000, 'override': v1, 'override_again': v2, 'extractor': 'untyped'}
                nat = replay([case])[0]
                want_ok = max(v1, v2) <= v2
                chk.counterexample(f'ApiEndpoint::request_body_max_bytes called with {v1} then {v2} leaves {r}; a body of {max(v1, v2)} bytes -> {nat}', case,
                                   (nat.get('status') == 200) != want_ok, role='builder')

    # lengths and limits as 64-bit vectors (bit-blasted) up to 4 frames; as mathematical integers with the wrap-around made explicit
    # (linear arithmetic) for longer frame scripts, where bit-blasting the chained 64-bit additions does not finish
    plan = [('bv', 4, True)] if tier == 'quick' else [('bv', 4, True), ('int', int(os.environ.get('C11_KMAX', '12')), False)]
    incon = []
    for enc, km, wr in plan:
        incon += one_encoding(enc, km, wr)
    chk.name_prefix = ''
    ENC['int'] = False
    chk.bounds['frames_per_body'] = '; '.join(f'0..{km} frames with {enc} lengths' for enc, km, _ in plan) + ' (each frame: data of symbolic 64-bit length | trailers | transport error; <=1 error, <=1 trailers)'
    # ---- informational: the overflow the assumption excludes
    script0, lens = mk_script(('data', 'data'))
    s = z3.Solver(); s.add((lens[0] + lens[1] >= (1 << 64)) if ENC['int'] else z3.Not(z3.BVAddNoOverflow(lens[0], lens[1], False))); s.add(in_range(lens))
    chk.notes.append(f'without the body-length assumption, bytes_read + len can overflow (panic with overflow checks on): {s.check()}')

    witnesses(chk)
    if incon:
        rc = chk.finish('inconclusive run')
        if rc == 1: return 1
        raise Inconclusive(f'{len(incon)} task(s) inconclusive; first: {incon[0]}')
    return chk.finish('one obligation per (frame-script shape, execution path across polls, reference case); non-trivial = distinct name')


def part_multipart(chk, ex, mk_rqctx, dflt, ovr, kmax):
    rng = in_range([dflt, ovr])
    import glob, os, re
    from mirsym.core import SymStr, StrSort
    from mirsym.runner import REPO
    from props import c10
    f = ex.fns
    F = [n for n in mir.find(f, r'extractor::body::<impl at [^>]*>::from_request$', unique=False) if 'MultipartBody' in (f[n].ret or '')][0]
    hv_ = re.search(r'name = "http"\nversion = "([^"]+)"', open(os.path.join(REPO, 'Cargo.lock')).read()).group(1)
    if not getattr(ex, '_parts_loaded', False):
        for p_ in glob.glob(os.path.expanduser(f'~/.cargo/registry/src/*/http-{hv_}/src/request.rs')): ex.L.add_source(p_, only={'Parts'})
        ex._parts_loaded = True
    seen = {}
    def m_multipart_new(ex, a, c):
        seen['stream'] = dv(a[0])
        return Opaque('multipart', (a[0], dv(a[1])))
    # the boundary parameter: 1..70 characters (RFC 2046); its length in the encoding of this pass
    blen = BV('boundary_len')
    bound_ok = [ule(1, blen), ule(blen, 70)] + in_range([blen])
    def m_len_boundary(ex, a, c):
        v = dv(a[0])
        if isinstance(v, Opaque) and v.tag == 'boundary': return blen
        from mirsym.models import m_str_len
        return m_str_len(ex, a, c)
    local = [(r'^(multer::)?parse_boundary::', lambda ex, a, c: ex.ok(Opaque('boundary'))), (r'Multipart::<.*>::new::<|^multer::Multipart::new', m_multipart_new),
             (r'^String::len$|<impl str>::len$', m_len_boundary),
             (r'Body::into_data_stream$', lambda ex, a, c: Opaque('uncapped-data-stream', dv(a[0])), True)] + [m for m in c10.MODELS if 'into_parts' in m[0]]
    def task_fn(chk, task):
            kinds, has = task
            n_capped = 0
            script0, lens = mk_script(kinds)
            assume = no_overflow(lens) + rng + bound_ok
            eff = ovr if has else dflt
            def h(ex):
                Yielder.emitted = []; seen.clear()
                body = Body(script0)
                hm = httpmodel.HMap([('content-type', httpmodel.HV(SymStr(z3.Const('content_type_text', StrSort))))])
                req = httpmodel.Request(headers=hm, body=body)
                fut = ex.call_fn(F, [Ref(Cell(mk_rqctx(ex, has))), req])
                cell = AM.pinned(fut)
                if isinstance(cell.v, Ref): cell = cell.v.cell
                r = AM.drive(ex, cell)
                if r.discr != 0: return ('refused', httpmodel.status_of(ex, ex.payload(r)))
                st = seen.get('stream')
                if isinstance(st, Opaque) and st.tag == 'uncapped-data-stream':
                    # the raw body: every data frame reaches the parser (and through it the handler), whatever the limit
                    out = []
                    for fr in script0:
                        if fr[0] == 'error': out.append(('err', 400)); break
                        if fr[0] == 'data': out.append(('ok', fr[1]))
                    return ('uncapped', out)
                for _ in range(len(script0) + 3):
                    if AM.stream_next(ex, st) is None: break
                else:
                    raise Unsupported('stream did not end')
                return ('capped', describe_emitted(ex, Yielder.emitted))
            ex.models = local + ex.models
            try:
                outs = ex.explore(h, assume)
            finally:
                ex.models = ex.models[len(local):]
            chk.paths += len(outs)
            tag = f'multipart/{"-".join(kinds) or "empty"}/{"override" if has else "default"}'
            for pc, (k, r) in outs:
                if k != 'ok':
                    m = chk.prove(f'{tag}/no-panic', pc, z3.BoolVal(True), extra=assume)
                    if m is not None: chk.mismatches.append(f'MultipartBody::from_request panicked: {r}')
                    continue
                how, emitted = r
                if how == 'refused':
                    m = chk.prove(f'{tag}/not-refused-before-reading', pc, z3.BoolVal(True), extra=assume)
                    if m is not None: chk.mismatches.append(f'MultipartBody::from_request refused a request with a usable content type: {emitted}')
                    continue
                if how == 'capped': n_capped += 1
                def then(pc2, spec, emitted=emitted, how=how):
                    same = len(spec) == len(emitted) and all(
                        (s_[0] == 'ok' and e[0] == 'ok' and s_[1] is e[1]) or (s_[0] == 'err' and e[0] == 'err' and isinstance(e[1], int) and 400 <= e[1] <= 499)
                        for s_, e in zip(spec, emitted))
                    m = chk.prove(f'{tag}/parser-is-fed-the-body-through-the-limit', pc2, z3.BoolVal(not same), extra=assume,
                                  prefer=[ule(l, 200) for l in lens] + [ule(dflt, 256), ule(ovr, 256), ule(100, dflt), ule(100, ovr), total(lens) == (ovr if has else dflt) + 1])
                    if m is None: return
                    ls, d, o = [concrete(m, l) for l in lens], concrete(m, dflt), concrete(m, ovr)
                    if sum(ls) > 65536 or d > 65536 or (has and o > 65536):
                        chk.mismatches.append(f'model not replayable (sizes too large): multipart {ls} default {d} override {o}'); return
                    lim = o if has else d
                    # a real multipart body of exactly the model's total size (form framing included), boundary of the model's length
                    case = {'op': 'multipart_body', 'body_len': sum(ls), 'boundary_len': concrete(m, blen), 'default': d, 'override': o if has else None}
                    nat = replay([case])[0]
                    if 'unbuildable' in nat:
                        case = {'op': 'multipart_body', 'field_len': sum(ls), 'default': d, 'override': o if has else None}
                        nat = replay([case])[0]
                    bad = (nat.get('status') == 200 or nat.get('seen_max', 0) > lim) if nat.get('body_len', 0) > lim else nat.get('status') != 200
                    chk.counterexample(f'MultipartBody ({how} stream): frames {ls} with limit {lim} reach the multipart parser as {emitted}, the statement says {spec}; '
                                       f'on a real server a form field of {sum(ls)} bytes -> {nat}', case, bad, role='multipart-uncapped' if how == 'uncapped' else 'multipart')
                refeval.under(list(pc) + assume, lambda d_: spec_stream(script0, eff, d_), then, Inconclusive)
            return {'capped': n_capped}
    extras, incon = parallel(chk, [(k_, h_) for k_ in shapes(kmax) if 'trailers' not in k_ for h_ in (False, True)], task_fn)
    n_capped = sum(e.get('capped', 0) for e in extras)
    chk.extra['multipart_capped_paths'] = n_capped
    return incon


def concrete(m, t):
    return m.eval(t, model_completion=True).as_long()


def native_body(chunks, default, override, extractor='untyped', framing=None, declared=None):
    case = {'op': 'body', 'chunks': chunks, 'default': default, 'override': override, 'extractor': extractor}
    if framing: case['framing'] = framing
    if declared is not None: case['declared_length'] = declared        # a Content-Length header next to chunked framing
    return replay([case])[0], case


def clamp(v, hi=4096):
    return v if v <= hi else None


def report_stream(chk, m, kinds, lens, cap, what, dflt=None, ovr=None, declared=None):
    if m is None: return
    decl = None
    if declared is not None and bool(m.eval(declared[1], model_completion=True)) and bool(m.eval(declared[0].numeric, model_completion=True)):
        decl = m.eval(declared[0].val, model_completion=True).as_long()
        if not (0 <= decl < 2**63): decl = None
    ls = [concrete(m, l) for l in lens]
    c = concrete(m, cap)
    if any(l > 65536 for l in ls) or c > 65536:
        chk.mismatches.append(f'model not replayable (sizes too large for a loop-back request): {what} lens={ls} cap={c}')
        return
    if 'error' in kinds or 'trailers' in kinds:
        chk.mismatches.append(f'model not replayable natively (transport error / trailers frames): {what} kinds={kinds} lens={ls} cap={c}')
        return
    bad = False
    info = []
    for ext, framing in (('untyped', None), ('streaming', None), ('untyped', 'content-length')) + ((('untyped', 'declared'),) if decl is not None else ()):
        nat, case = native_body(ls, c, None, ext, None if framing == 'declared' else framing, declared=decl if framing == 'declared' else None)
        tot = sum(ls)
        if tot <= c: ok = nat.get('status') == 200 and nat.get('seen') == tot
        else: ok = 400 <= nat.get('status', 0) <= 499 and nat.get('seen_max', 0) <= c
        info.append((ext, framing or 'chunked', nat))
        bad = bad or not ok
    chk.counterexample(f'{what}: chunks {ls} limit {c} -> native {info}', case, bad, role='stream:' + '-'.join(kinds))


def report_limit(chk, m, has, dflt, ovr):
    d, o = concrete(m, dflt) % 4096, concrete(m, ovr) % 4096
    eff = o if has else d
    nat1, case = native_body([eff], d, o if has else None)
    nat2, _ = native_body([eff + 1], d, o if has else None)
    bad = nat1.get('status') != 200 or not (400 <= nat2.get('status', 0) <= 499)
    chk.counterexample(f'effective limit with default {d} override {o if has else None}: body of {eff} -> {nat1}, body of {eff + 1} -> {nat2}',
                       case, bad, role='limit:' + ('override' if has else 'default'))


def witnesses(chk):
    """translator validation on the wire: both extractors, default and override, at and around the limit, several chunkings"""
    cases = []
    for ext in ('untyped', 'streaming', 'typed'):
        for (chunks, d, o) in [([10], 10, None), ([11], 10, None), ([5, 5], 10, None), ([5, 6], 10, None), ([4, 4, 4], 10, None),
                               ([20], 10, 20), ([21], 10, 20), ([8], 10, 4), ([4], 10, 4), ([0], 0, None), ([1], 0, None), ([3, 3, 3, 3], 10, 12)]:
            if ext == 'typed' and sum(chunks) < 2: continue
            cases.append({'op': 'body', 'chunks': chunks, 'default': d, 'override': o, 'extractor': ext})
            if len(chunks) <= 2: cases.append(dict(cases[-1], framing='content-length'))
    # the multipart extractor: the limit is on the whole body (form framing included); the handler counts the field bytes it reads
    mp = [{'op': 'multipart_body', 'field_len': n, 'default': d, 'override': o} for n, d, o in [(10, 1024, None), (5000, 1024, None), (5000, 1024, 8000), (900, 1024, 500), (1, 40, None)]]
    for c, r in zip(mp, replay(mp)):
        chk.replayed += 1
        eff = c['override'] if c['override'] is not None else c['default']
        good = (r.get('status') == 200 and r.get('seen_max') == c['field_len']) if r.get('body_len', 0) <= eff else (400 <= r.get('status', 0) <= 499 and r.get('seen_max', 0) <= eff)
        if not good: chk.counterexample(f'multipart extractor: field of {c["field_len"]} bytes, default {c["default"]} override {c["override"]} -> {r}', c, True, role='wire:multipart')
    res = replay(cases)
    for c, r in zip(cases, res):
        chk.replayed += 1
        eff = c['override'] if c['override'] is not None else c['default']
        tot = sum(c['chunks'])
        if tot <= eff: good = r.get('status') == 200 and r.get('seen') == tot
        else: good = 400 <= r.get('status', 0) <= 499 and r.get('seen_max', 0) <= eff
        if not good:
            chk.counterexample(f'{c["extractor"]} extractor ({c.get("framing", "chunked")} framing): chunks {c["chunks"]} default {c["default"]} override {c["override"]} -> {r}', c, True,
                               role='wire:' + c['extractor'])
        if len(chk.samples) < 8: chk.samples.append({'case': c, 'native': r})

"""Models for the futures dropshot's own coroutines poll (DESIGN.md §4, last row): the request
body as a harness-supplied frame script, the async-stream yielder, futures::TryStreamExt::try_fold,
Ready futures, and dispatch of `Future::poll` to a dropshot coroutine's own MIR."""
import re

import z3

from mirsym.core import Adt, Cell, Closure, Opaque, Panic, PVec, Ref, Tup, Unsupported, dv


class Bytes:
    """one chunk of body bytes: identity + symbolic length"""
    def __init__(self, ident, length): self.ident, self.len = ident, length
    def __repr__(self): return f'Bytes({self.ident})'


class Body:
    """request body = script of frames: ('data', Bytes) | ('trailers',) | ('error',)"""
    def __init__(self, script): self.script, self.pos = list(script), 0
    def __repr__(self): return f'Body@{self.pos}/{len(self.script)}'


class BytesMut:
    def __init__(self): self.chunks = []
    def __repr__(self): return f'BytesMut{self.chunks}'


class Yielder:
    """the async-stream thread-local slot"""
    emitted = []


def poll_ready(ex, v): return ex.mk_enum('Poll', 'Ready', [v])
def poll_pending(ex): return ex.mk_enum('Poll', 'Pending')


def pinned(x):
    """Pin<&mut T> -> the cell holding T"""
    x = x if isinstance(x, Adt) else dv(x)
    r = x.fields[None][0].v
    while isinstance(r, Ref) and isinstance(r.cell.v, Ref): r = r.cell.v
    return r.cell


def m_frame(ex, args, callee): return Opaque('framefut', dv(args[0]))


def m_frame_poll(ex, args, callee):
    body = pinned(args[0]).v.payload
    if body.pos >= len(body.script): return poll_ready(ex, ex.none())
    item = body.script[body.pos]; body.pos += 1
    if item[0] == 'error': return poll_ready(ex, ex.some(ex.err(Opaque('transport-error'))))
    return poll_ready(ex, ex.some(ex.ok(Opaque('hframe', item))))


def m_into_data(ex, args, callee):
    f = args[0]
    return ex.ok(f.payload[1]) if f.payload[0] == 'data' else ex.err(f)


def m_send(ex, args, callee): return Opaque('sendfut', {'val': args[1], 'sent': False})


def m_send_poll(ex, args, callee):
    fut = pinned(args[0]).v.payload
    if not fut['sent']:
        fut['sent'] = True; Yielder.emitted.append(fut['val']); return poll_pending(ex)
    return poll_ready(ex, Tup([]))


def m_coroutine_poll(ex, args, callee):
    """`<{async block / async fn body} as Future>::poll` and `Pin<Box<dyn Future>>::poll` on a dropshot coroutine"""
    cell = pinned(args[0])
    co = cell.v
    for _ in range(3):
        if isinstance(co, Ref): cell, co = co.cell, co.cell.v
        elif isinstance(co, Adt) and co.ty == 'Pin':       # Pin<&mut Pin<Box<dyn Future>>>
            cell = co.fields[None][0]; co = cell.v
        else: break
    if isinstance(co, Adt) and co.ty == 'Coroutine':
        pin = Adt('Pin', 0, {None: [Cell(Ref(cell))]})
        return ex.call_fn(co.fields['fn'], [pin, args[1]])
    if isinstance(co, Opaque) and co.tag == 'readyfut':
        return poll_ready(ex, co.payload)
    if isinstance(co, Opaque) and co.tag == 'tryfold':
        return tryfold_poll(ex, co)
    if isinstance(co, Opaque) and co.tag == 'pollfn':
        return ex.call_closure(co.payload, [args[1]])
    raise Unsupported(f'poll of {co!r}')


class MaybeDoneV:
    """futures::future::MaybeDone: Future(f) -> Done(output) -> Gone"""
    def __init__(self, fut): self.state, self.fut, self.out = 'future', Cell(fut), Cell(None)
    def __repr__(self): return f'MaybeDone({self.state})'


def _md(arg):
    v = arg
    for _ in range(6):
        if isinstance(v, Ref): v = v.cell.v
        elif isinstance(v, Adt) and v.ty == 'Pin': v = v.fields[None][0].v
        else: break
    if not isinstance(v, MaybeDoneV): raise Unsupported(f'not a MaybeDone: {v!r}')
    return v


def m_md_poll(ex, args, callee):
    md = _md(args[0])
    if md.state == 'gone': raise Panic('MaybeDone polled after value taken')
    if md.state == 'future':
        r = m_coroutine_poll(ex, [Adt('Pin', 0, {None: [Cell(Ref(md.fut))]}), args[1]], '')
        if r.discr != 0: return poll_pending(ex)
        md.out.v = ex.payload(r); md.state = 'done'
    return poll_ready(ex, Tup([]))


def m_md_output_mut(ex, args, callee):
    md = _md(args[0])
    return ex.some(Ref(md.out)) if md.state == 'done' else ex.none()


def m_md_take_output(ex, args, callee):
    md = _md(args[0])
    if md.state != 'done': return ex.none()
    md.state = 'gone'
    return ex.some(md.out.v)


def m_pollfn_poll(ex, args, callee):
    v = pinned(args[0]).v
    while isinstance(v, Ref): v = v.cell.v
    return ex.call_closure(v.payload, [args[1]])


class AsyncStream:
    def __init__(self, gen_cell): self.gen, self.done = gen_cell, False


def m_asyncstream_new(ex, args, callee):
    return AsyncStream(Cell(args[1]))


def stream_next(ex, st):
    """one poll_next of an async_stream::AsyncStream whose generator is a dropshot coroutine.
    -> item | None (end).  The body model never returns Pending, so a Pending generator has yielded."""
    if st.done: return None
    before = len(Yielder.emitted)
    for _ in range(4):
        r = m_coroutine_poll(ex, [Adt('Pin', 0, {None: [Cell(Ref(st.gen))]}), Opaque('cx')], '')
        if len(Yielder.emitted) > before:
            if r.discr == 0: st.done = True
            return Yielder.emitted[-1]
        if r.discr == 0:
            st.done = True; return None
    raise Unsupported('stream generator pending without yielding')


def m_try_fold(ex, args, callee):
    return Opaque('tryfold', {'stream': dv(args[0]), 'acc': args[1], 'f': args[2]})


def tryfold_poll(ex, fut):
    """futures::stream::TryFold: fold Ok items with f (whose future is polled to completion), stop at the first Err"""
    st = fut.payload
    while True:
        item = stream_next(ex, st['stream'])
        if item is None: return poll_ready(ex, ex.ok(st['acc']))
        if item.discr == 1: return poll_ready(ex, ex.err(ex.payload(item)))
        f = ex.call_closure(st['f'], [st['acc'], ex.payload(item)])
        if not (isinstance(f, Opaque) and f.tag == 'readyfut'): raise Unsupported(f'try_fold closure future {f!r}')
        r = f.payload
        if r.discr == 1: return poll_ready(ex, ex.err(ex.payload(r)))
        st['acc'] = ex.payload(r)


def m_bm_put(ex, args, callee):
    dv(args[0]).chunks.append(args[1]); return Tup([])


def m_size_hint(ex, args, callee):
    """http_body::Body::size_hint contract: lower <= bytes still to come <= upper (when an upper bound is known at all;
    a chunked body has none).  Lower / upper / presence are symbols constrained only by that contract."""
    body = dv(args[0])
    while isinstance(body, Opaque) and isinstance(body.payload, Body): body = body.payload
    if not isinstance(body, Body): raise Unsupported(f'size_hint of {body!r}')
    total = z3.BitVecVal(0, 64)
    for fr in body.script[body.pos:]:
        if fr[0] == 'data': total = total + fr[1].len
    lo, up, has_up = z3.BitVec('size_hint_lower', 64), z3.BitVec('size_hint_upper', 64), z3.Bool('size_hint_has_upper')
    ex.assume(z3.ULE(lo, total)); ex.assume(z3.Implies(has_up, z3.ULE(total, up)))
    return Opaque('sizehint', (lo, up, has_up))


def m_hint_upper(ex, args, callee):
    lo, up, has_up = dv(args[0]).payload
    return ex.some(up) if ex.truth(has_up) else ex.none()


MODELS = [
    (r'^Poll::<.*>::is_pending$', lambda ex, a, c: dv(a[0]).discr == 1), (r'^Poll::<.*>::is_ready$', lambda ex, a, c: dv(a[0]).discr == 0),
    (r'^(futures::future::)?maybe_done::<', lambda ex, a, c: MaybeDoneV(a[0])),
    (r'^<(futures::future::)?MaybeDone<.*> as (futures::)?Future>::poll$', m_md_poll),
    (r'MaybeDone::<.*>::output_mut$', m_md_output_mut), (r'MaybeDone::<.*>::take_output$', m_md_take_output),
    (r'^(futures::future::)?poll_fn::<', lambda ex, a, c: Opaque('pollfn', a[0])),
    (r'^<(futures::future::)?PollFn<.*> as (futures::)?Future>::poll$', m_pollfn_poll),
    (r' as (hyper::body::|http_body::)?Body>::size_hint$', m_size_hint),
    (r'SizeHint::upper$', m_hint_upper), (r'SizeHint::lower$', lambda ex, a, c: dv(a[0]).payload[0]), (r'SizeHint::exact$', lambda ex, a, c: m_hint_upper(ex, a, c)),
    (r'^BytesMut::with_capacity$', lambda ex, a, c: BytesMut()),
    (r' as BodyExt>::frame$', m_frame),
    (r'<http_body_util::combinators::Frame<.*> as (futures::)?Future>::poll$', m_frame_poll),
    (r'hyper::body::Frame::<.*>::into_data$', m_into_data),
    (r'^Bytes::len$|bytes::Bytes::len$', lambda ex, a, c: dv(a[0]).len),
    (r'yielder::Sender::<.*>::send$', m_send),
    (r'<async_stream::yielder::Send<.*> as (futures::)?Future>::poll$', m_send_poll),
    (r'^async_stream::yielder::pair::', lambda ex, a, c: Tup([Cell(Opaque('yield_tx')), Cell(Opaque('yield_rx'))])),
    (r'AsyncStream::<.*>::new$', m_asyncstream_new),
    (r' as TryStreamExt>::try_fold::', m_try_fold),
    (r'^(futures::future::)?ok::<', lambda ex, a, c: Opaque('readyfut', ex.ok(a[0]))),
    (r'^(futures::future::)?err::<', lambda ex, a, c: Opaque('readyfut', ex.err(a[0]))),
    (r'^(futures::future::)?ready::<', lambda ex, a, c: Opaque('readyfut', a[0])),
    (r'<\{async (block|fn body of)[^}]*\} as (futures::)?Future>::poll$|<TryFold<.*> as (futures::)?Future>::poll$'
     r'|^<Pin<Box<dyn (futures::)?Future<.*> as (futures::)?Future>::poll$|<futures::future::Ready<.*> as (futures::)?Future>::poll$',
     m_coroutine_poll),
    (r'^BytesMut::new$', lambda ex, a, c: BytesMut()),
    (r'<BytesMut as BufMut>::put::|BytesMut as bytes::BufMut>::put::', m_bm_put),
    (r'^BytesMut::freeze$', lambda ex, a, c: a[0]),
]


def drive(ex, co_cell, max_polls=64):
    """poll a coroutine to completion; returns its output"""
    for _ in range(max_polls):
        pin = Adt('Pin', 0, {None: [Cell(Ref(co_cell))]})
        r = ex.call_fn(co_cell.v.fields['fn'], [pin, Opaque('cx')])
        if r.discr == 0: return ex.payload(r)
    raise Unsupported('poll bound hit')

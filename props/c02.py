"""C02 — see props/router_run.py (conflicts, ambiguity, reachability) and props/c02reg.py (registration-time validation)"""
from props import router_run, c02reg


def run(tier, replay_file=None):
    return router_run.run('C02', tier, replay_file, before_finish=c02reg.part_registration)

"""C02 — see props/router_run.py"""
from props import router_run


def run(tier, replay_file=None):
    return router_run.run('C02', tier, replay_file)

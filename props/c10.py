"""C10 — Invalid input is refused with a 4xx before any handler runs (dropshot's glue).

Which inputs the third-party decoders (serde_json, serde_urlencoded, std::str::parse) reject is
decided inside those crates; here every decoder outcome is a symbol, and what is proved is
dropshot's part: every rejection becomes a 4xx, nothing reaches the handler, nothing panics or
yields a 5xx — plus the parts dropshot owns outright: content-type dispatch, the requirement that
the whole body is one JSON value, and the string -> scalar glue of MapDeserializer."""
import glob
import os
import re

import z3

from mirsym import mir, refeval
from mirsym.core import Adt, Cell, Opaque, Panic, PMap, PVec, PyClosure, Ref, SB, SymStr, Tup, Unsupported, dv, StrSort, is_sym, zand, zor
from mirsym.layout import Layouts
from mirsym.models import BASE_MODELS
from mirsym.runner import Check, Inconclusive, replay, REPO
from props import asyncmodel as AM, httpmodel, strmodel
from props.asyncmodel import Body, Bytes, Yielder
from props.httpmodel import HMap, HV, Request
from props.strmodel import b8, c8, ascii_lower

MIME = {'Json': 'application/json', 'UrlEncoded': 'application/x-www-form-urlencoded', 'Bytes': 'application/octet-stream',
        'MultipartFormData': 'multipart/form-data'}


class NumStr:
    """a path/query segment seen at the value level: `numeric` (sign + digits) and its mathematical value"""
    rust_type = 'String'
    def __init__(self, name):
        self.numeric = z3.Bool(name + '_is_numeric')
        self.val = z3.Int(name + '_value')
        self.has_plus = z3.Bool(name + '_has_plus')      # Rust's integer FromStr accepts a leading '+'
        self.name = name
        self.outer_ws = None      # set on the original when code trims it: (has surrounding whitespace, the trimmed NumStr)


def m_numstr_trim(ex, args, callee):
    """trim of a value-level segment: a numeric segment has no whitespace, so it is unchanged; a non-numeric one with surrounding
    whitespace becomes some other text (which may well be numeric: ` 12 ` -> `12`)"""
    s = dv(args[0])
    if not isinstance(s, NumStr): raise Unsupported(f'{callee} of {s!r}')
    if s.outer_ws is None:
        s.outer_ws = (z3.Bool(s.name + '_has_outer_whitespace'), NumStr(s.name + '_trimmed'))
    ws, inner = s.outer_ws
    ex.assume(z3.Implies(s.numeric, z3.Not(ws)))
    return inner if ex.truth(ws) else s


class Env:
    json_prefix_ok = json_trailing = form_ok = None
    handler_calls = 0
    extract = None


INT_RANGE = {'u8': (0, 255), 'u16': (0, 65535), 'u32': (0, 2**32 - 1), 'u64': (0, 2**64 - 1), 'i8': (-128, 127), 'i16': (-32768, 32767),
             'i32': (-2**31, 2**31 - 1), 'i64': (-2**63, 2**63 - 1)}


def m_parse(ex, args, callee):
    ty = re.search(r'parse::<(\w+)>', callee).group(1)
    wide = {'usize': 'u64', 'isize': 'i64'}
    if ty in wide: ty = wide[ty]
    s = dv(args[0])
    if isinstance(s, NumStr) and ty in INT_RANGE:
        lo, hi = INT_RANGE[ty]
        if ex.truth(z3.And(s.numeric, s.val >= lo, s.val <= hi)):
            bits = int(ty[1:])
            return ex.ok(z3.Int2BV(s.val, bits))
        return ex.err(Opaque('ParseIntError'))
    if isinstance(s, NumStr):      # bool / char / floats: outcome is a fresh symbol
        if ex.truth(z3.FreshConst(z3.BoolSort(), f'parses_as_{ty}')): return ex.ok(Opaque('parsed', (ty, s)))
        return ex.err(Opaque('ParseError'))
    raise Unsupported(f'parse::<{ty}> of {s!r}')


def m_visit(ex, args, callee):
    kind = re.search(r'::visit_(\w+)', callee).group(1)
    return ex.ok(Opaque('visited', (kind, args[1] if len(args) > 1 else None)))


def m_path_to_error_deserialize(ex, args, callee):
    d = dv(args[0])
    if isinstance(d, Opaque) and d.tag == 'json-deserializer':
        if ex.truth(Env.json_prefix_ok): return ex.ok(Opaque('parsed-json', d.payload))
        return ex.err(Opaque('path_to_error'))
    if isinstance(d, Opaque) and d.tag == 'form-deserializer':
        if ex.truth(Env.form_ok): return ex.ok(Opaque('parsed-form', d.payload))
        return ex.err(Opaque('path_to_error'))
    raise Unsupported(f'serde_path_to_error::deserialize of {d!r}')


def m_json_end(ex, args, callee):
    if ex.truth(Env.json_trailing): return ex.err(Opaque('serde_json::Error', 'trailing characters'))
    return ex.ok(Tup([]))


def m_json_from_slice(ex, args, callee):
    """serde_json::from_slice(&body): parses exactly one value and requires end of input"""
    if ex.truth(z3.And(Env.json_prefix_ok, z3.Not(Env.json_trailing))): return ex.ok(Opaque('parsed-json', dv(args[0])))
    return ex.err(Opaque('serde_json::Error'))


def m_into_parts(ex, args, callee):
    r = dv(args[0])
    parts = ex.mk_struct_partial('Parts', headers=r.headers)
    return Tup([Cell(parts), Cell(r.body)])


def m_trim_any(ex, args, callee):
    if isinstance(dv(args[0]), NumStr): return m_numstr_trim(ex, args, callee)
    from props import strmodel
    return strmodel.m_trim(ex, args, callee)


MODELS = [
    (r'<impl str>::trim$', m_trim_any),
    (r'<impl str>::parse::<\w+>$', m_parse),
    (r' as [\w:]*Visitor<.*>>::visit_\w+(::<.*>)?$', m_visit),
    (r'^serde_path_to_error::deserialize::<', m_path_to_error_deserialize),
    (r'Deserializer::<.*>::from_slice$', lambda ex, a, c: Opaque('json-deserializer', dv(a[0]))),
    (r'Deserializer::<.*>::end$', m_json_end),
    (r'^(serde_json::)?from_slice::', m_json_from_slice),
    (r'^form_urlencoded::parse$', lambda ex, a, c: Opaque('form-pairs', dv(a[0]))),
    (r'serde_urlencoded::Deserializer::<.*>::new$|serde_urlencoded::Deserializer::new$', lambda ex, a, c: Opaque('form-deserializer', a[0].payload)),
    (r'Request::<.*>::into_parts$', m_into_parts),
    (r'<BytesMut as Deref>::deref$|<Bytes as Deref>::deref$', lambda ex, a, c: dv(a[0])),
    (r'^std::any::type_name::|^type_name::', lambda ex, a, c: 'type'),
]


def content_types():
    """symbolic Content-Type values: a known or unknown media type in any letter case, followed by up to 3 arbitrary bytes"""
    out = [('absent', None, []), ('non-ascii', None, [])]
    for base in list(MIME.values()) + ['text/plain']:
        for k in (0, 1, 3):
            bs, assume = [], []
            for i, ch in enumerate(base):
                if ch.isalpha():
                    up = z3.Bool(f'upper_{i}')
                    bs.append(z3.If(up, z3.BitVecVal(ord(ch.upper()), 8), z3.BitVecVal(ord(ch), 8)))
                else:
                    bs.append(ord(ch))
            tail = [z3.BitVec(f'tail{i}', 8) for i in range(k)]
            assume += [z3.Or(b == 9, z3.And(z3.UGE(b, 32), z3.ULE(b, 126))) for b in tail]
            out.append((f'{base}+{k}', bs + tail, assume))
    return out


def media_type_matches(bs, mime, decide):
    """RFC 9110 8.3.1: type/subtype before the first ';', optional whitespace before it ignored, case-insensitive"""
    end = len(bs)
    for i, b in enumerate(bs):
        if decide(b8(b) == c8(';')):
            end = i; break
    mt = list(bs[:end])
    while mt and decide(z3.Or(b8(mt[-1]) == 32, b8(mt[-1]) == 9)): mt.pop()
    if len(mt) != len(mime): return False
    return bool(decide(z3.And([ascii_lower(x) == c8(ch) for x, ch in zip(mt, mime)]))) if mt else False


def concrete_ct(m, name, bs):
    if name in ('absent',): return None
    if name == 'non-ascii': return 'non-ascii'
    return bytes(m.eval(b8(b), model_completion=True).as_long() for b in bs).decode('latin1')


def run(tier, replay_file=None):
    chk = Check('C10', tier)
    ex = chk.load(MODELS + strmodel.MODELS + AM.MODELS + httpmodel.MODELS + BASE_MODELS, loop_bound=100)
    ex.const_models.append(httpmodel.const_model)
    lock = open(os.path.join(REPO, 'Cargo.lock')).read()
    hv = re.search(r'name = "http"\nversion = "([^"]+)"', lock).group(1)
    for p in glob.glob(os.path.expanduser(f'~/.cargo/registry/src/*/http-{hv}/src/request.rs')):
        ex.L.add_source(p, only={'Parts'})
    f = ex.fns
    chk.bounds = {'content_type': 'absent | non-ASCII | one of 5 media types in every letter case + up to 3 arbitrary header bytes (OWS, ";", parameters)',
                  'expected_content_type': list(MIME), 'decoders': 'every third-party decoder outcome symbolic (JSON value prefix ok / trailing data / form ok)',
                  'scalars': 'path segment as (is-numeric, mathematical value) for all 8 integer widths; bool/char/floats with symbolic parse outcome',
                  'extractor_tuples': '() and (X,) impls; the 2- and 3-extractor impls expand futures::try_join! and are not covered'}
    chk.assumptions = ['which inputs serde_json / serde_urlencoded / str::parse reject is third-party; integer parse = "optional sign, digits, value in range"',
                       'a missing path field ("missing field: ...") cannot occur at run time: registration checks path variables against the handler type',
                       'request-body streaming and its limit are covered by C11 (one data frame within the limit here)']
    typed_body(chk, ex)
    query_and_path(chk, ex)
    scalars(chk, ex)
    short_circuit(chk, ex)
    tuple_extractors(chk, ex)
    witnesses(chk)
    return chk.finish('one obligation per (content-type shape x expected type / decoder / scalar width / glue function, execution path, reference case)')


# ------------------------------------------------------------------------------------------ TypedBody
def typed_body(chk, ex):
    f = ex.fns
    F = mir.find(f, r'(^|::)http_request_load_body$')
    jp, jt, fo = z3.Bools('json_value_ok json_trailing_data form_ok')
    cap = z3.BitVec('cap', 64)
    blen = z3.BitVec('body_len', 64)
    n_ok = 0
    for expected in MIME:
        for name, bs, assume in content_types():
            base = list(assume) + [z3.ULE(blen, cap)]
            def h(ex):
                Env.json_prefix_ok, Env.json_trailing, Env.form_ok = jp, jt, fo
                Yielder.emitted = []
                hm = HMap()
                if name == 'non-ascii': hm.entries.append(('content-type', HV(SB([0xf0, 0x9f]), False)))
                elif bs is not None: hm.entries.append(('content-type', HV(SB(bs), True)))
                body = Body([('data', Bytes('payload', blen))])
                req = Request(headers=hm, body=body)
                server = ex.mk_struct_partial('DropshotState', config=ex.mk_struct_partial('ServerConfig', default_request_body_max_bytes=cap))
                endpoint = ex.mk_struct_partial('RequestEndpointMetadata', request_body_max_bytes=ex.none(),
                                                body_content_type=ex.mk_enum('ApiEndpointBodyContentType', expected))
                rq = ex.mk_struct_partial('RequestContext', server=Ref(Cell(server)), endpoint=endpoint)
                co = ex.call_fn(F, [Ref(Cell(rq)), req])
                r = AM.drive(ex, Cell(co))
                if r.discr == 0: return ('ok', ex.field(ex.payload(r), 'inner').v)
                return ('err', httpmodel.status_of(ex, ex.payload(r)))
            outs = ex.explore(h, base)
            chk.paths += len(outs)
            tag = f'typed-body/{expected}/{name}'
            for pc, (k, r) in outs:
                if k != 'ok':
                    m = chk.prove(f'{tag}/no-panic', pc, z3.BoolVal(True), extra=base)
                    report_body(chk, m, expected, name, bs, jp, jt, fo, f'http_request_load_body panicked: {r}'); continue
                def spec(d):
                    if name == 'non-ascii': return False
                    ct_ok = (expected == 'Json') if name == 'absent' else media_type_matches(bs, MIME[expected], d)
                    if not ct_ok: return False
                    if expected == 'Json': return bool(d(z3.And(jp, z3.Not(jt))))
                    if expected == 'UrlEncoded': return bool(d(fo))
                    return False
                def then(pc2, want_ok, r=r):
                    nonlocal n_ok
                    if r[0] == 'ok':
                        n_ok += 1
                        good = want_ok and isinstance(r[1], Opaque) and r[1].tag == ('parsed-json' if expected == 'Json' else 'parsed-form')
                        m = chk.prove(f'{tag}/accepted-only-if-valid-for-this-endpoint', pc2, z3.BoolVal(not good), extra=base)
                        report_body(chk, m, expected, name, bs, jp, jt, fo, 'invalid body / wrong content type accepted')
                    else:
                        good = (not want_ok) and isinstance(r[1], int) and 400 <= r[1] <= 499
                        m = chk.prove(f'{tag}/refused-with-4xx-only-if-invalid', pc2, z3.BoolVal(not good), extra=base)
                        report_body(chk, m, expected, name, bs, jp, jt, fo, f'valid body refused ({r[1]})' if want_ok else f'refusal is not a 4xx: {r[1]}')
                refeval.under(list(pc) + base, spec, then, Inconclusive, max_depth=30)
    if not n_ok: raise Inconclusive('vacuity: TypedBody never succeeds')


def report_body(chk, m, expected, name, bs, jp, jt, fo, what):
    if m is None: return
    if expected not in ('Json', 'UrlEncoded'):
        chk.mismatches.append(f'model not replayable (no typed endpoint with content type {expected}): {what}'); return
    ev = lambda t: bool(m.eval(t, model_completion=True))
    ct = concrete_ct(m, name, bs)
    mt_req = (ct or 'application/json').split(';')[0].rstrip(' \t').lower()
    if ct == 'non-ascii': mt_req = MIME[expected]      # an undecodable header value: the body is what the endpoint would otherwise accept
    # the body is written in the format the request announces (that is what the code will try to decode)
    if mt_req == MIME['UrlEncoded']:
        body = 'to=m&amount=1' if ev(fo) else 'to=m&amount=notanumber'
        valid = ev(fo)
    else:
        body = '{"to":"m","amount":1}' if ev(jp) else '{"to":'
        if ev(jt): body += ' trailing'
        valid = ev(jp) and not ev(jt)
    case = {'op': 'typed_request', 'method': 'POST', 'target': '/json' if expected == 'Json' else '/form', 'content_type': ct, 'body': body}
    nat = replay([case])[0]
    import re as _re
    mt = (ct or 'application/json').split(';')[0].rstrip(' \t').lower()
    want_ok = valid and mt == MIME[expected] and ct != 'non-ascii'
    bad = (nat.get('status') == 200) != want_ok or (nat.get('entered', 0) > 0) != want_ok or (not want_ok and not (400 <= nat.get('status', 0) <= 499))
    chk.counterexample(f'{what}: endpoint expects {MIME[expected]}, request Content-Type {ct!r}, body {body!r} -> native {nat}', case, bad,
                       role=f'typed-body:{expected}')


# ------------------------------------------------------------------------------------------ query / path glue
def query_and_path(chk, ex):
    f = ex.fns
    F_q = mir.find(f, r'(^|::)http_request_load_query$')
    F_p = mir.find(f, r'(^|::)http_extract_path_params$')
    qok = z3.Bool('query_decodes')
    has_q = z3.Bool('has_query')
    fed = []
    def m_from_str(ex, a, c):
        fed.append(dv(a[0]))
        return ex.ok(Opaque('parsed-query', dv(a[0]))) if ex.truth(qok) else ex.err(Opaque('urlencoded::Error'))
    def m_decode_opaque(ex, a, c):
        # percent-decoding the whole query before the form decoder sees it: some other text (when it is UTF-8 at all)
        if ex.truth(z3.Bool('whole_query_decodes_to_utf8')): return ex.ok(Opaque('percent-decoded', dv(a[0]).payload))
        return ex.err(Opaque('Utf8Error'))
    local = [(r'^serde_urlencoded::from_str::', m_from_str),
             (r'PercentDecode::<.*>::decode_utf8$', m_decode_opaque),
             (r'PercentDecode::<.*>::decode_utf8_lossy$', lambda ex, a, c: Opaque('percent-decoded', dv(a[0]).payload)),
             (r'<Cow<.*str> as Deref>::deref$|Cow::<.*str>::as_ref$|<Cow<.*str> as AsRef<str>>::as_ref$', lambda ex, a, c: dv(a[0])),
             (r'RequestInfo::uri$|handler::<impl at [^>]*>::uri$', lambda ex, a, c: Ref(Cell(Opaque('uri'))), True),
             (r'Uri::query$', lambda ex, a, c: ex.some(Opaque('raw-query')) if ex.truth(has_q) else ex.none())]
    def hq(ex):
        del fed[:]
        r = ex.call_fn(F_q, [Ref(Cell(Opaque('request-info')))])
        return r, list(fed)
    ex.models = local + ex.models
    try:
        outs = ex.explore(hq, [])
    finally:
        ex.models = ex.models[len(local):]
    chk.paths += len(outs)
    for pc, (k, rr) in outs:
        if k != 'ok':
            m = chk.prove('query/no-panic', pc, z3.BoolVal(True))
            if m is not None: chk.mismatches.append(f'http_request_load_query panics: {rr}')
            continue
        r, got = rr
        # the form decoder (which splits on & and = and then percent-decodes each piece once) is handed the query exactly as it arrived
        raw_ok = (not got and r.discr == 1) or len(got) == 1 and ((isinstance(got[0], Opaque) and got[0].tag == 'raw-query') or got[0] == '' or (type(got[0]).__name__ == 'SB' and not got[0].bs))
        m = chk.prove('query/decoder-is-fed-the-raw-query', pc, z3.BoolVal(not raw_ok))
        if m is not None:
            case = {'op': 'typed_request', 'method': 'GET', 'target': '/q?n=%2531'}
            nat = replay([case])[0]
            chk.counterexample(f'the query decoder is handed {got} instead of the raw query string: GET /q?n=%2531 (the text `%31`, not a number) -> native {nat}', case,
                               not (400 <= nat.get('status', 0) <= 499 and nat.get('entered') == 0), role='query:raw')
        if r.discr == 0: m = chk.prove('query/accepted-only-if-decoder-accepts', pc, z3.Not(qok))
        else:
            st = httpmodel.status_of(ex, ex.payload(r))
            m = chk.prove('query/refusal-is-4xx', pc, z3.Or(qok, z3.BoolVal(not (isinstance(st, int) and 400 <= st <= 499))))
        if m is not None:
            case = {'op': 'typed_request', 'method': 'GET', 'target': '/q?n=notanumber'}
            nat = replay([case])[0]
            chk.counterexample(f'query glue: {r} -> native {nat}', case, not (400 <= nat.get('status', 0) <= 499 and nat.get('entered') == 0), role='query')
    pok = z3.Bool('path_decodes')
    msg = SymStr(z3.Const('from_map_error', StrSort))
    missing = z3.Bool('error_is_missing_field')
    local = [(r'^from_map::|from_map::from_map::', lambda ex, a, c: ex.ok(Opaque('parsed-path', dv(a[0]))) if ex.truth(pok) else ex.err(msg), True),
             (r'<impl str>::starts_with::<&str>$|String::starts_with', lambda ex, a, c: missing)]
    ex.models = local + ex.models
    try:
        outs = ex.explore(lambda ex: ex.call_fn(F_p, [Ref(Cell(PMap()))]), [z3.Not(missing)])
    finally:
        ex.models = ex.models[len(local):]
    chk.paths += len(outs)
    for pc, (k, r) in outs:
        if k != 'ok':
            m = chk.prove('path/no-panic', pc, z3.BoolVal(True), extra=[z3.Not(missing)])
            if m is not None:
                # long path segments with multi-byte characters at every offset around 256 bytes of error text
                from urllib.parse import quote
                cases_ = [{'op': 'typed_request', 'method': 'GET', 'target': '/p/' + quote('x' * k + '\u20ac' * 12, safe='') + '/1/1'} for k in (235, 236, 237, 238, 239, 240, 241)]
                nats = replay(cases_)
                bad_ = [c_['target'][:12] + '..' for c_, n_ in zip(cases_, nats) if not (400 <= n_.get('status', 0) <= 499 and n_.get('entered') == 0)]
                chk.counterexample(f'http_extract_path_params panics ({r}); long non-ASCII path segments for a u8 field: {[(n_.get("status"), n_.get("entered")) for n_ in nats]}', cases_[3], bool(bad_), role='path:panic')
            continue
        if r.discr == 0: m = chk.prove('path/accepted-only-if-decoder-accepts', pc, z3.Not(pok))
        else:
            st = httpmodel.status_of(ex, ex.payload(r))
            m = chk.prove('path/refusal-is-4xx', pc, z3.Or(pok, z3.BoolVal(not (isinstance(st, int) and 400 <= st <= 499))))
        if m is not None:
            case = {'op': 'typed_request', 'method': 'GET', 'target': '/p/x/1/1'}
            nat = replay([case])[0]
            chk.counterexample(f'path glue: {r} -> native {nat}', case, not (400 <= nat.get('status', 0) <= 499 and nat.get('entered') == 0), role='path')


# ------------------------------------------------------------------------------------------ string -> scalar glue of MapDeserializer
def scalars(chk, ex):
    f = ex.fns
    s = NumStr('segment')
    for ty in list(INT_RANGE) + ['bool', 'char', 'f32', 'f64']:
        c = [n for n in mir.find(f, r'from_map::<impl at [^>]*>::deserialize_' + ty + '$', unique=False)]
        if len(c) != 1: raise Inconclusive(f'cannot locate MapDeserializer::deserialize_{ty}: {c}')
        def h(ex):
            de = ex.mk_enum('MapDeserializer', 'Value', [ex.mk_enum('VariableValue', 'String', [s])])
            return ex.call_fn(c[0], [Ref(Cell(de)), Opaque('visitor')])
        outs = ex.explore(h, [])
        chk.paths += len(outs)
        for pc, (k, r) in outs:
            if k != 'ok':
                m = chk.prove(f'scalar/{ty}/no-panic', pc, z3.BoolVal(True)); report_scalar(chk, m, ty, s, f'deserialize_{ty} panicked: {r}'); continue
            if ty in INT_RANGE:
                lo, hi = INT_RANGE[ty]
                in_range = z3.And(s.numeric, s.val >= lo, s.val <= hi)
                if r.discr == 0:
                    v = ex.payload(r)
                    good_shape = isinstance(v, Opaque) and v.tag == 'visited' and v.payload[0] == ty and z3.is_bv(v.payload[1])
                    if not good_shape:
                        m = chk.prove(f'scalar/{ty}/visits-its-own-type', pc, z3.BoolVal(True)); report_scalar(chk, m, ty, s, f'deserialize_{ty} visited {v}'); continue
                    bits = int(ty[1:])
                    m = chk.prove(f'scalar/{ty}/accepted-only-in-range-with-same-value', pc, z3.Or(z3.Not(in_range), v.payload[1] != z3.Int2BV(s.val, bits)),
                                  prefer=[s.val >= -1000, s.val <= 70000])
                    report_scalar(chk, m, ty, s, f'out-of-range or altered value delivered for {ty}')
                else:
                    m = chk.prove(f'scalar/{ty}/refused-only-out-of-range', pc, in_range)
                    report_scalar(chk, m, ty, s, f'in-range value refused for {ty}')
            else:
                if r.discr == 0:
                    v = ex.payload(r)
                    good = isinstance(v, Opaque) and v.tag == 'visited' and v.payload[0] == ty and isinstance(v.payload[1], Opaque) and v.payload[1].payload == (ty, s)
                    m = chk.prove(f'scalar/{ty}/delivers-the-parsed-value', pc, z3.BoolVal(not good))
                    report_scalar(chk, m, ty, s, f'deserialize_{ty} delivered {v}')


SCALAR_SLOT = {'u8': ('/p', 0, 'a'), 'i8': ('/p', 1, 'b'), 'u32': ('/p', 2, 'c'),
               'u16': ('/p2', 0, 'd'), 'u64': ('/p2', 1, 'e'), 'i16': ('/p2', 2, 'f'), 'i32': ('/p2', 3, 'g'), 'i64': ('/p2', 4, 'h')}


def scalar_case(ty, text):
    """a request to the native typed API whose path carries `text` in the segment declared as `ty`"""
    base, idx, key = SCALAR_SLOT[ty]
    segs = ['1'] * (3 if base == '/p' else 5)
    segs[idx] = text
    return {'op': 'typed_request', 'method': 'GET', 'target': base + '/' + '/'.join(segs)}, key


def report_scalar(chk, m, ty, s, what):
    if m is None: return
    if ty not in SCALAR_SLOT:
        chk.mismatches.append(f'model not replayable (no native endpoint with a {ty} path field): {what}'); return
    ev = lambda t: m.eval(t, model_completion=True)
    text = str(ev(s.val).as_long()) if bool(ev(s.numeric)) else 'x1'
    if not bool(ev(s.numeric)) and s.outer_ws is not None and bool(ev(s.outer_ws[0])):
        inner = s.outer_ws[1]
        text = '%20' + (str(ev(inner.val).as_long()) if bool(ev(inner.numeric)) else 'x1') + '%20'       # surrounding whitespace, percent-encoded for the wire
    case, key = scalar_case(ty, text)
    nat = replay([case])[0]
    lo, hi = INT_RANGE[ty]
    ok_want = bool(ev(s.numeric)) and lo <= ev(s.val).as_long() <= hi
    bad = (nat.get('status') == 200) != ok_want or (ok_want and (nat.get('body') or {}).get(key) != ev(s.val).as_long()) or (not ok_want and nat.get('entered', 0) != 0)
    chk.counterexample(f'{what}: path segment {text!r} as {ty} -> native {nat}', case, bad, role=f'scalar:{ty}')


# ------------------------------------------------------------------------------------------ extraction failure short-circuits before the handler
def short_circuit(chk, ex):
    f = ex.fns
    F_handle = [n for n in mir.find(f, r'handler::<impl at [^>]*>::handle_request$', unique=False) if 'HttpRouteHandler' in f[n].locals.get('_1', '')][0]
    F_tuple1 = [n for n in f if re.search(r'(^|::)common::<impl at [^>]*>::from_request(#\d+)?$', n) and re.search(r'Result<\(X,\)', f[n].ret or '')]
    if len(F_tuple1) != 1: raise Inconclusive(f'cannot locate the one-element tuple extractor: {F_tuple1}')
    fails = z3.Bool('extraction_fails')
    est = z3.BitVec('extractor_error_status', 16)
    def mk_err(ex):
        return ex.mk_struct('HttpError', status_code=Adt('ErrorStatusCode', 0, {None: [Cell(est)]}), error_code=ex.none(),
                            external_message=SymStr(z3.Const('ext_msg', StrSort)), internal_message=SymStr(z3.Const('int_msg', StrSort)), headers=ex.none())
    def m_extract(ex, a, c):
        return Opaque('readyfut', ex.err(mk_err(ex)) if ex.truth(fails) else ex.ok(Opaque('funcparams')))
    def m_user_handler(ex, a, c):
        Env.handler_calls += 1
        return Opaque('readyfut', ex.ok(httpmodel.Response(200, HMap(), Opaque('body', 'handler-output'))))
    local = [(r'^<FuncParams as RequestExtractor>::from_request::|^<X as ExclusiveExtractor>::from_request::', m_extract, True),
             (r'^<HandlerType as HttpHandlerFunc<.*>>::handle_request(::<.*>)?$', m_user_handler),
             (r'<<HandlerType as HttpHandlerFunc<.*>>::Error as From<HttpError>>::from$', lambda ex, a, c: a[0]),
             (r'<HttpError as ToString>::to_string$|<E as ToString>::to_string$', lambda ex, a, c: 'error text')]
    base = [z3.UGE(est, 400), z3.ULE(est, 499)]         # extractors return 4xx (shown per extractor above and in C03/C05/C11/C14/C20)
    for label, F, mkargs in [('route-handler', F_handle, lambda ex: [Ref(Cell(ex.mk_struct_partial('HttpRouteHandler', handler=Opaque('user-fn')))), Opaque('rqctx'), Opaque('request')])] + \
                            [('tuple-of-one', n, lambda ex: [Ref(Cell(Opaque('rqctx'))), Opaque('request')]) for n in F_tuple1]:
        def h(ex):
            Env.handler_calls = 0
            fut = ex.call_fn(F, mkargs(ex))
            cell = AM.pinned(fut)
            if isinstance(cell.v, Ref): cell = cell.v.cell
            r = AM.drive(ex, cell)
            return r, Env.handler_calls
        ex.models = local + ex.models
        ex.type_env = {'E': 'HttpError'}
        try:
            outs = ex.explore(h, base)
        finally:
            ex.models = ex.models[len(local):]; ex.type_env = {}
        chk.paths += len(outs)
        seen = set()
        for pc, (k, rr) in outs:
            if k != 'ok':
                m = chk.prove(f'short-circuit/{label}/no-panic', pc, z3.BoolVal(True), extra=base)
                if m is not None: chk.mismatches.append(f'{label} panics: {rr}')
                continue
            r, calls = rr
            if label == 'route-handler':
                if r.discr == 1:
                    he = ex.payload(r)
                    good = calls == 0 and ex.variant_name(he) == 'Dropshot'
                    st = httpmodel.status_of(ex, ex.payload(he)) if good else None
                    m = chk.prove(f'short-circuit/{label}/failed-extraction-never-reaches-handler', pc, z3.Or(z3.Not(fails), z3.BoolVal(not good), st != est), extra=base)
                    seen.add('err')
                else:
                    m = chk.prove(f'short-circuit/{label}/handler-runs-only-after-successful-extraction', pc, z3.Or(fails, z3.BoolVal(calls != 1)), extra=base)
                    seen.add('ok')
            else:
                good = (r.discr == 1) if True else None
                m = chk.prove(f'short-circuit/{label}/error-propagates', pc, z3.BoolVal(r.discr == 1) != fails, extra=base)
                seen.add('ok' if r.discr == 0 else 'err')
            if m is not None:
                chk.mismatches.append(f'{label}: extraction failure does not short-circuit before the handler (calls={calls}, result={r}); '
                                      'replayed only through the wire witnesses')
        if seen != {'ok', 'err'}: raise Inconclusive(f'vacuity: {label} outcomes {seen}; unsupported: {ex.unsupported_paths[-1:]}')


def tuple_extractors(chk, ex):
    """the macro-generated `impl RequestExtractor for (S1, .., X)`: futures::try_join! over the component extractors (executed from MIR with
    models of MaybeDone / poll_fn): the tuple is delivered iff every component succeeds, with every value in its own position; otherwise the
    result is the error of a failing component (a 4xx, as shown per extractor) and nothing else"""
    f = ex.fns
    F_tuples = [n for n in f if re.search(r'(^|::)common::<impl at [^>]*>::from_request(#\d+)?$', n) and re.search(r'Result<\(S1, (S2, )?X\)', f[n].ret or '')]
    if len(F_tuples) != 2: raise Inconclusive(f'cannot locate the two- and three-element tuple extractors: {F_tuples}')
    names = ['S1', 'S2', 'X']
    fails = {n: z3.Bool(f'{n}_extraction_fails') for n in names}
    est = {n: z3.BitVec(f'{n}_error_status', 16) for n in names}
    vals = {n: Opaque(f'value-of-{n}') for n in names}
    def mk_err(ex, n):
        return ex.mk_struct('HttpError', status_code=Adt('ErrorStatusCode', 0, {None: [Cell(est[n])]}), error_code=ex.none(),
                            external_message=SymStr(z3.Const(f'ext_msg_{n}', StrSort)), internal_message=SymStr(z3.Const(f'int_msg_{n}', StrSort)), headers=ex.none())
    def m_extract(ex, a, c):
        n = re.match(r'^<(S1|S2|X) as ', c).group(1)
        return Opaque('readyfut', ex.err(mk_err(ex, n)) if ex.truth(fails[n]) else ex.ok(vals[n]))
    local = [(r'^<(S1|S2) as SharedExtractor>::from_request::|^<X as ExclusiveExtractor>::from_request::', m_extract, True)]
    base = [z3.And(z3.UGE(e, 400), z3.ULE(e, 499)) for e in est.values()]
    for F in F_tuples:
        comps = ['S1', 'S2', 'X'] if 'S2' in (f[F].ret or '') else ['S1', 'X']
        label = f'tuple-of-{len(comps)}'
        def h(ex):
            fut = ex.call_fn(F, [Ref(Cell(Opaque('rqctx'))), Opaque('request')])
            cell = AM.pinned(fut)
            if isinstance(cell.v, Ref): cell = cell.v.cell
            return AM.drive(ex, cell)
        ex.models = local + ex.models
        try:
            outs = ex.explore(h, base)
        finally:
            ex.models = ex.models[len(local):]
        chk.paths += len(outs)
        seen = set()
        any_fails = z3.Or([fails[n] for n in comps])
        for pc, (k, r) in outs:
            if k != 'ok':
                m = chk.prove(f'{label}/no-panic', pc, z3.BoolVal(True), extra=base)
                if m is not None: chk.mismatches.append(f'{label} extractor panics: {r}')
                continue
            if r.discr == 0:
                seen.add('ok')
                t = dv(ex.payload(r))
                good = isinstance(t, Tup) and len(t.items) == len(comps) and all(dv(c.v) is vals[n] for c, n in zip(t.items, comps))
                m = chk.prove(f'{label}/delivered-only-if-every-component-succeeds-each-in-its-position', pc, z3.Or(any_fails, z3.BoolVal(not good)), extra=base)
            else:
                seen.add('err')
                st = httpmodel.status_of(ex, ex.payload(r))
                from_failing = z3.Or([z3.And(fails[n], st == est[n]) for n in comps]) if z3.is_expr(st) or isinstance(st, int) else z3.BoolVal(False)
                m = chk.prove(f'{label}/error-is-a-failing-components-error', pc, z3.Not(from_failing), extra=base)
            if m is not None:
                chk.mismatches.append(f'{label}: {dict((n, m.eval(fails[n], model_completion=True)) for n in comps)} -> {r} (multi-extractor endpoints are replayed only through the wire witnesses)')
        if seen != {'ok', 'err'}: raise Inconclusive(f'vacuity: {label} outcomes {seen}; unsupported: {ex.unsupported_paths[-1:]}')


def witnesses(chk):
    J = 'application/json'
    cases = [
        ('POST', '/json', J, '{"to":"m","amount":1}', True), ('POST', '/json', J, '{"to":"m","amount":1} x', False), ('POST', '/json', J, '{"to":"m","amount":1}{}', False),
        ('POST', '/json', J, '{"to":"m","amount":1}  \n', True), ('POST', '/json', J, '{"to":"m","amount":-1}', False), ('POST', '/json', J, '{"to":"m"}', False),
        ('POST', '/json', J, '{"to":"m","amount":1,"amount":2}', False), ('POST', '/json', J, '{"to":', False), ('POST', '/json', 'Application/JSON ; charset=utf-8', '{"to":"m","amount":1}', True),
        ('POST', '/json', 'application/x-www-form-urlencoded', 'to=m&amount=1', False), ('POST', '/json', 'text/plain', '{"to":"m","amount":1}', False),
        ('POST', '/json', None, '{"to":"m","amount":1}', True), ('POST', '/form', 'application/x-www-form-urlencoded', 'to=m&amount=1', True),
        ('POST', '/form', J, '{"to":"m","amount":1}', False), ('POST', '/form', 'application/x-www-form-urlencoded', 'to=m&amount=x', False),
        ('GET', '/p/255/-128/4294967295', None, '', True), ('GET', '/p/256/1/1', None, '', False), ('GET', '/p/1/128/1', None, '', False), ('GET', '/p/1/1/4294967296', None, '', False),
        ('GET', '/p/-1/1/1', None, '', False), ('GET', '/p/a/1/1', None, '', False), ('GET', '/p/+7/+7/+7', None, '', True),
        ('GET', '/q?n=1', None, '', True), ('GET', '/q?n=65536', None, '', False), ('GET', '/q?n=1&color=Blue', None, '', False), ('GET', '/q?n=1&color=Red', None, '', True),
        ('GET', '/q', None, '', False), ('GET', '/q?n=1&n=2', None, '', False), ('GET', '/q?n=1&flag=maybe', None, '', False),
        # decoded exactly once: `%2531` is the text `%31`, not the number 1; an encoded `&` or `=` does not start a new pair
        ('GET', '/q?n=%2531', None, '', False), ('GET', '/q?n=%31', None, '', True), ('GET', '/q?s=x%26n%3D1', None, '', False), ('GET', '/q?n=1&color=%2552ed', None, '', False),
        ('POST', '/json', 'non-ascii', '{"to":"m","amount":1}', False), ('GET', '/p2/65535/18446744073709551615/-32768/-2147483648/-9223372036854775808', None, '', True),
        ('GET', '/p2/65536/1/1/1/1', None, '', False), ('GET', '/p2/1/18446744073709551616/1/1/1', None, '', False), ('GET', '/p2/1/1/1/1/9223372036854775808', None, '', False),
        ('POST', '/text', 'text/plain', [0xff, 0xfe], False), ('POST', '/text', 'text/plain', 'hello', True),
    ]
    reqs = [{'op': 'typed_request', 'method': m_, 'target': t, 'content_type': ct, 'body': b} for m_, t, ct, b, _ in cases]
    res = replay(reqs)
    for (m_, t, ct, b, valid), c, r in zip(cases, reqs, res):
        chk.replayed += 1
        in_handler = t == '/text'          # UntypedBody::as_str() is called by the handler itself
        good = (r.get('status') == 200 and r.get('entered') == 1) if valid else (400 <= r.get('status', 0) <= 499 and (in_handler or r.get('entered') == 0))
        if not good:
            chk.counterexample(f'{m_} {t} content-type {ct!r} body {b!r}: expected {"accept" if valid else "4xx without running the handler"}, native {r}', c, True,
                               role='wire:' + t.split('?')[0].split('/')[1])
        if len(chk.samples) < 8: chk.samples.append({'request': c, 'native': {k: r.get(k) for k in ('status', 'entered')}})

"""C08 — Converting a type's JSON Schema to OpenAPI preserves its meaning (keyword level).

schema_util::{j2oas_schema, j2oas_schema_object, j2oas_subschemas, j2oas_integer, j2oas_number, j2oas_string,
j2oas_array, j2oas_object, box_reference_or} executed from MIR on symbolic schema *shapes*: which optional keywords
are present is enumerated per instance kind, every scalar inside (bounds, lengths, flags, formats, names) is a symbol.
Struct layouts of schemars::schema::* and openapiv3::* are read from the crate sources in the cargo registry."""
import glob
import itertools
import os
import re

import z3

from mirsym import mir
from mirsym.core import Adt, Cell, Opaque, Panic, PMap, PSet, PVec, Ref, SymStr, Tup, Unsupported, dv, StrSort, is_sym, zand, zor, znot, zbool
from mirsym.models import BASE_MODELS, val_eq
from mirsym.runner import Check, Inconclusive, replay, REPO


def sstr(n): return SymStr(z3.Const(n, StrSort))


class Num:
    """serde_json::Number"""
    def __init__(self, v): self.v = v


def m_float_to_int(ex, v, dst):
    """`f as iN` / `f as uN` for a float that is integral and in range (assumption); saturating for negative -> unsigned"""
    if z3.is_real(v) or z3.is_int(v):
        i = z3.ToInt(v) if z3.is_real(v) else v
        return z3.If(i < 0, z3.IntVal(0), i) if dst.startswith('u') else i
    if isinstance(v, float): return int(v)
    raise Unsupported(f'FloatToInt of {v!r}')


MODELS = [
    (r'^serde_json::Number::as_i64$|Number::as_i64$', lambda ex, a, c: ex.some(dv(a[0]).v)),
    (r'^serde_json::Number::as_f64$|Number::as_f64$', lambda ex, a, c: ex.some(z3.ToReal(dv(a[0]).v) if z3.is_int(dv(a[0]).v) else dv(a[0]).v)),
    (r'^serde_json::to_string_pretty::', lambda ex, a, c: ex.ok('json-text')),
    (r'ReferenceOr::<.*>::boxed_item$', lambda ex, a, c: ex.mk_enum('ReferenceOr', 'Item', [Ref(Cell(a[0]))])),
    (r'<Box<.*> as AsRef<.*>>::as_ref$', lambda ex, a, c: a[0].cell.v if isinstance(a[0], Ref) and isinstance(a[0].cell.v, Ref) else a[0]),
    (r'IndexMap::<.*>::get::<', None),
    (r'^<(schemars::schema::)?Schema as From<SchemaObject>>::from$', lambda ex, a, c: ex.mk_enum('Schema', 'Object', [a[0]])),
]


def load_layouts(ex):
    lock = open(os.path.join(REPO, 'Cargo.lock')).read()
    def ver(name): return re.findall(r'name = "' + name + r'"\nversion = "([^"]+)"', lock)
    for v in ver('schemars'):
        for p in glob.glob(os.path.expanduser(f'~/.cargo/registry/src/*/schemars-{v}/src/schema.rs')): ex.L.add_source(p)
    for v in ver('openapiv3'):
        for f_ in ('schema.rs', 'reference.rs', 'variant_or.rs'):
            for p in glob.glob(os.path.expanduser(f'~/.cargo/registry/src/*/openapiv3-{v}/src/{f_}')): ex.L.add_source(p)
    ex.L.enums['Value'] = ['Null', 'Bool', 'Number', 'String', 'Array', 'Object']
    for need in ('SchemaObject', 'NumberValidation', 'IntegerType', 'SchemaData'):
        if need not in ex.L.structs: raise Inconclusive(f'layout of {need} not found in the registry sources')
    ex.variant_owner = {}
    for en, vs in ex.L.enums.items():
        for v in vs: ex.variant_owner.setdefault(v, []).append(en)


class B:
    """builders for schemars values"""
    def __init__(self, ex): self.ex = ex
    def opt(self, v): return self.ex.none() if v is None else self.ex.some(v)
    def boxed(self, v): return Ref(Cell(v))
    def schema_object(self, **kw):
        ex = self.ex
        d = dict(metadata=ex.none(), instance_type=ex.none(), format=ex.none(), enum_values=ex.none(), const_value=ex.none(), subschemas=ex.none(),
                 number=ex.none(), string=ex.none(), array=ex.none(), object=ex.none(), reference=ex.none(), extensions=PMap())
        d.update(kw)
        return ex.mk_struct('SchemaObject', **d)
    def typed(self, ty, **kw):
        return self.schema_object(instance_type=self.ex.some(self.ex.mk_enum('SingleOrVec', 'Single', [self.boxed(self.ex.mk_enum('InstanceType', ty))])), **kw)
    def schema(self, obj): return self.ex.mk_enum('Schema', 'Object', [obj])
    def ref(self, name): return self.schema(self.schema_object(reference=self.ex.some(name)))
    def number(self, multiple_of=None, maximum=None, exclusive_maximum=None, minimum=None, exclusive_minimum=None):
        return self.ex.mk_struct('NumberValidation', multiple_of=self.opt(multiple_of), maximum=self.opt(maximum), exclusive_maximum=self.opt(exclusive_maximum),
                                 minimum=self.opt(minimum), exclusive_minimum=self.opt(exclusive_minimum))
    def jnum(self, v): return self.ex.mk_enum('Value', 'Number', [Num(v)])
    def jstr(self, v): return self.ex.mk_enum('Value', 'String', [v])
    def jnull(self): return self.ex.mk_enum('Value', 'Null')
    def jbool(self, b): return self.ex.mk_enum('Value', 'Bool', [b])


def item_of(ex, r):
    """ReferenceOr<Schema> -> ('ref', name) | ('item', schema_data, schema_kind)"""
    r = dv(r)
    if ex.variant_name(r) == 'Reference': return ('ref', dv(ex.payload(r)))
    s = dv(ex.payload(r))
    return ('item', ex.field(s, 'schema_data').v, ex.field(s, 'schema_kind').v)


def type_of(ex, kind, which):
    """SchemaKind::Type(Type::<which>(x)) -> x or None"""
    kind = dv(kind)
    if ex.variant_name(kind) != 'Type': return None
    t = dv(ex.payload(kind))
    if ex.variant_name(t) != which: return None
    return dv(ex.payload(t))


def opt_val(ex, o):
    o = dv(o)
    return None if o.discr == 0 else dv(ex.payload(o))


def eqz(a, b):
    """formula: two optional numeric values agree"""
    if a is None or b is None: return z3.BoolVal(a is None and b is None)
    if isinstance(a, (int, float)) and isinstance(b, (int, float)): return z3.BoolVal(a == b)
    if z3.is_bv(a) or z3.is_bv(b):
        if not z3.is_bv(a) or not z3.is_bv(b) or a.size() != b.size():
            a = z3.BV2Int(a) if z3.is_bv(a) else a; b = z3.BV2Int(b) if z3.is_bv(b) else b
    return a == b


def eqz_min(a, b):
    """lower limits (minLength / minItems / minProperties): absent means 0, so `0` and absent accept the same values"""
    zero = lambda v: z3.BitVecVal(0, 32) if v is None else v
    return eqz(zero(a), zero(b))


def run(tier, replay_file=None):
    chk = Check('C08', tier)
    models = [m for m in MODELS if m[1] is not None]
    ex = chk.load(models + BASE_MODELS, loop_bound=60)
    load_layouts(ex)
    ex.float_to_int = m_float_to_int
    F = mir.find(ex.fns, r'(^|::)j2oas_schema$')
    b = B(ex)
    chk.bounds = {'schemas': 'one SchemaObject per instance kind; optional keywords present/absent enumerated; numeric bounds, multipleOf, lengths, item/property limits, '
                             'formats, enum values, names: symbolic; composites one level deep (leaf or $ref children, <= 2 alternatives)',
                  'outside': 'schemars output for compiled Rust types (the "all types" quantifier); recursion depth > 1; const, patternProperties, propertyNames, contains, if/then/else'}
    chk.assumptions = ['numeric bounds of integer schemas are integral and within +-2^63 (true of every schema schemars derives for Rust integer types); `f as i64` is then exact',
                       'layouts of schemars::schema::* / openapiv3::* read from the registry sources; <T as Default>::default() yields empty/false/None fields',
                       'not both minimum and exclusiveMinimum (resp. maximum) present: the converter panics ("invalid") on that; schemars never emits both']

    def convert(schema, name=None):
        return ex.call_fn(F, [ex.none() if name is None else ex.some(Ref(Cell(name))), Ref(Cell(schema))])

    def explore(tag, mk, check, assume=()):
        outs = ex.explore(lambda ex: convert(*mk()), list(assume))
        chk.paths += len(outs)
        n = 0
        for pc, (k, r) in outs:
            if k != 'ok':
                m = chk.prove(f'{tag}/no-panic', pc, z3.BoolVal(True), extra=assume)
                if m is not None: chk.mismatches.append(f'conversion of {tag} panics: {r}')
                continue
            n += 1
            check(pc, r)
        if not n: raise Inconclusive(f'vacuity: no conversion path for {tag}; {ex.unsupported_paths[-1:]}')

    numeric_kinds(chk, ex, b, explore)
    string_kind(chk, ex, b, explore)
    simple_kinds(chk, ex, b, explore)
    array_object_kinds(chk, ex, b, explore)
    subschema_kinds(chk, ex, b, explore)
    annotations(chk, ex, b, explore)
    extract_description(chk, ex, b)
    reference_closure(chk, ex, b)
    void_schema(chk, ex, b)
    witnesses(chk)
    return chk.finish('one obligation per (instance kind, keyword-presence shape, execution path, clause)')


# ----------------------------------------------------------------------------------------------------
def numeric_kinds(chk, ex, b, explore):
    mo, mn, xmn, mx, xmx = [z3.Real(n) for n in ('multiple_of', 'minimum', 'exclusive_minimum', 'maximum', 'exclusive_maximum')]
    ev = z3.Int('enum_value')
    x = z3.Real('instance')
    for ty, out_ty in (('Integer', 'Integer'), ('Number', 'Number')):
        formats = [None, 'int32', 'int64', 'uint8'] if ty == 'Integer' else [None, 'float', 'double', 'decimal']
        shapes = []
        for has_mo, lo, hi, has_enum in itertools.product((False, True), ('none', 'min', 'xmin'), ('none', 'max', 'xmax'), (False, True)):
            shapes.append((has_mo, lo, hi, has_enum))
        for (has_mo, lo, hi, has_enum), fmt in zip(shapes, itertools.cycle(formats)):
            integral = [z3.IsInt(v) for v in (mo, mn, xmn, mx, xmx)] + [z3.And(v > -2**62, v < 2**62) for v in (mo, mn, xmn, mx, xmx)] if ty == 'Integer' else []
            assume = integral + [mo > 0]
            def mk():
                num = b.number(multiple_of=mo if has_mo else None, minimum=mn if lo == 'min' else None, exclusive_minimum=xmn if lo == 'xmin' else None,
                               maximum=mx if hi == 'max' else None, exclusive_maximum=xmx if hi == 'xmax' else None)
                kw = dict(number=ex.some(b.boxed(num)), format=b.opt(fmt))
                if has_enum: kw['enum_values'] = ex.some(PVec([Cell(b.jnum(ev)), Cell(b.jnull())]))
                return (b.schema(b.typed(ty, **kw)),)
            tag = f'{ty.lower()}/{"mo" if has_mo else "-"}/{lo}/{hi}/{"enum" if has_enum else "-"}/{fmt}'
            def check(pc, r, has_mo=has_mo, lo=lo, hi=hi, has_enum=has_enum, fmt=fmt, ty=ty, assume=assume, tag=tag):
                it = item_of(ex, r)
                t = type_of(ex, it[2], out_ty) if it[0] == 'item' else None
                if t is None:
                    m = chk.prove(f'{tag}/kind', pc, z3.BoolVal(True), extra=assume); report(chk, m, tag, f'{ty} schema converted to {r}'); return
                g = lambda n: opt_val(ex, ex.field(t, n).v)
                flag = lambda n: dv(ex.field(t, n).v)
                real = lambda v: None if v is None else (z3.ToReal(v) if z3.is_int(v) else v)
                # (i) keyword fidelity
                bad = [z3.Not(eqz(real(g('multiple_of')), mo if has_mo else None)),
                       z3.Not(eqz(real(g('minimum')), mn if lo == 'min' else xmn if lo == 'xmin' else None)), z3.BoolVal(flag('exclusive_minimum') != (lo == 'xmin')),
                       z3.Not(eqz(real(g('maximum')), mx if hi == 'max' else xmx if hi == 'xmax' else None)), z3.BoolVal(flag('exclusive_maximum') != (hi == 'xmax'))]
                fm = dv(ex.field(t, 'format').v)
                fname = ex.variant_name(fm)
                known = {'int32': 'Int32', 'int64': 'Int64', 'float': 'Float', 'double': 'Double'}
                if fmt is None: bad.append(z3.BoolVal(fname != 'Empty'))
                elif fmt in known: bad.append(z3.BoolVal(not (fname == 'Item' and ex.variant_name(dv(ex.payload(fm))) == known[fmt])))
                else: bad.append(z3.BoolVal(not (fname == 'Unknown' and dv(ex.payload(fm)) == fmt)))
                en = dv(ex.field(t, 'enumeration').v).items
                if has_enum:
                    ok_en = len(en) == 2 and dv(en[0].v).discr == 1 and dv(en[1].v).discr == 0
                    bad.append(z3.BoolVal(not ok_en))
                    if ok_en: bad.append(z3.Not(eqz(real(dv(ex.payload(dv(en[0].v)))), z3.ToReal(ev))))
                else: bad.append(z3.BoolVal(len(en) != 0))
                m = chk.prove(f'{tag}/keywords-preserved', pc, z3.Or(bad), extra=assume, prefer=[mn >= -100, mn <= 100, mx >= -100, mx <= 100, xmn >= -100, xmx <= 100])
                report_numeric(chk, m, ty, fmt, has_mo, lo, hi, mo, mn, xmn, mx, xmx, tag, f'{ty} keywords altered: {t}')
                # (ii) acceptance equivalence for every instance
                def valid(mof, lov, lox, hiv, hix):
                    c = []
                    if mof is not None: c.append(z3.IsInt(x / mof))
                    if lov is not None: c.append(x > lov if lox else x >= lov)
                    if hiv is not None: c.append(x < hiv if hix else x <= hiv)
                    return z3.And(c) if c else z3.BoolVal(True)
                js = valid(mo if has_mo else None, mn if lo == 'min' else xmn if lo == 'xmin' else None, lo == 'xmin', mx if hi == 'max' else xmx if hi == 'xmax' else None, hi == 'xmax')
                oas = valid(real(g('multiple_of')), real(g('minimum')), flag('exclusive_minimum'), real(g('maximum')), flag('exclusive_maximum'))
                inst = [z3.IsInt(x)] if ty == 'Integer' else []
                m = chk.prove(f'{tag}/accepts-the-same-instances', list(pc) + inst, js != oas, extra=assume, prefer=[mn >= -100, mn <= 100, mx >= -100, mx <= 100])
                report_numeric(chk, m, ty, fmt, has_mo, lo, hi, mo, mn, xmn, mx, xmx, tag, f'published {ty} schema accepts different instances')
            explore(tag, mk, check, assume)


def report_numeric(chk, m, ty, fmt, has_mo, lo, hi, mo, mn, xmn, mx, xmx, tag, what):
    if m is None: return
    val = lambda t: float(m.eval(t, model_completion=True).as_fraction())
    kw = {}
    if has_mo: kw['multipleOf'] = val(mo)
    if lo == 'min': kw['minimum'] = val(mn)
    if lo == 'xmin': kw['exclusiveMinimum'] = val(xmn)
    if hi == 'max': kw['maximum'] = val(mx)
    if hi == 'xmax': kw['exclusiveMaximum'] = val(xmx)
    schema = dict(type=ty.lower(), **kw)
    if fmt: schema['format'] = fmt
    case = {'op': 'j2oas', 'schema': schema}
    nat = replay([case])[0]
    chk.counterexample(f'{what}; JSON Schema {schema} -> native OpenAPI {nat.get("openapi")}', case, not nat.get('equivalent', False), role='numeric:' + ty)


SAME_KEYS = ['type', 'format', 'minLength', 'maxLength', 'pattern', 'minItems', 'maxItems', 'minProperties', 'maxProperties', 'enum', '$ref']


def keyword_loss(inp, out, at=''):
    """constraint keywords of a (concrete) JSON Schema that the published OpenAPI schema dropped, altered or invented"""
    if not isinstance(out, dict): return [f'{at}: published {out!r}']
    diff = []
    for k in SAME_KEYS:
        a, b_ = inp.get(k), out.get(k)
        if k in ('minLength', 'minItems', 'minProperties'): a, b_ = a or 0, b_ or 0       # an absent lower limit is 0
        if a != b_: diff.append(f'{at}/{k}: {inp.get(k)!r} -> {out.get(k)!r}')
    if sorted(inp.get('required', [])) != sorted(out.get('required', [])): diff.append(f'{at}/required')
    if bool(inp.get('uniqueItems')) != bool(out.get('uniqueItems')): diff.append(f'{at}/uniqueItems')
    for k in ('items', 'not', 'additionalProperties'):
        a, b_ = inp.get(k), out.get(k)
        if isinstance(a, dict): diff += keyword_loss(a, b_, f'{at}/{k}')
        elif a != b_: diff.append(f'{at}/{k}: {a!r} -> {b_!r}')
    if sorted(inp.get('properties', {})) != sorted((out.get('properties') or {})): diff.append(f'{at}/properties')
    else:
        for k, v in inp.get('properties', {}).items(): diff += keyword_loss(v, out['properties'][k], f'{at}/properties/{k}')
    for k in ('allOf', 'anyOf', 'oneOf'):
        a, b_ = inp.get(k), out.get(k)
        if (a is None) != (b_ is None) or (a is not None and len(a) != len(b_)): diff.append(f'{at}/{k}: {a!r} -> {b_!r}')
        elif a is not None:
            for i, (x, y) in enumerate(zip(a, b_)): diff += keyword_loss(x, y, f'{at}/{k}/{i}')
    return diff


def report(chk, m, tag, what, schema_of=None):
    """a solver model of a dropped / altered keyword: rebuild the concrete JSON Schema it describes and publish it with the real code"""
    if m is None: return
    if schema_of is None:
        chk.mismatches.append(f'{what} ({tag}); no native replay for this shape'); return
    schema = schema_of(lambda t: m.eval(t, model_completion=True).as_long())
    case = {'op': 'j2oas', 'schema': schema}
    nat = replay([case])[0]
    out = nat.get('openapi')
    lost = keyword_loss(schema, out) if out is not None else [f'native: {nat}']
    chk.counterexample(f'{what}; JSON Schema {schema} -> published {out}: {lost[:4]}', case, bool(lost), role='shape:' + tag.split('/')[0])


REF = '#/components/schemas/R'


def string_kind(chk, ex, b, explore):
    mnl, mxl = z3.BitVec('min_length', 32), z3.BitVec('max_length', 32)
    pat, e1 = sstr('pattern'), sstr('enum_1')
    for has_min, has_max, has_pat, has_enum, fmt in [(0, 0, 0, 0, None), (1, 0, 0, 1, 'date'), (0, 1, 1, 0, 'date-time'), (1, 1, 1, 1, 'uuid'), (1, 1, 0, 0, 'password'),
                                                     (0, 0, 1, 1, 'byte'), (1, 0, 1, 0, 'binary')]:
        def mk():
            sv = ex.mk_struct('StringValidation', max_length=b.opt(mxl if has_max else None), min_length=b.opt(mnl if has_min else None), pattern=b.opt(pat if has_pat else None))
            kw = dict(string=ex.some(b.boxed(sv)), format=b.opt(fmt))
            if has_enum: kw['enum_values'] = ex.some(PVec([Cell(b.jstr(e1)), Cell(b.jnull())]))
            return (b.schema(b.typed('String', **kw)),)
        tag = f'string/{has_min}{has_max}{has_pat}{has_enum}/{fmt}'
        def check(pc, r, has_min=has_min, has_max=has_max, has_pat=has_pat, has_enum=has_enum, fmt=fmt, tag=tag):
            it = item_of(ex, r)
            t = type_of(ex, it[2], 'String') if it[0] == 'item' else None
            if t is None:
                m = chk.prove(f'{tag}/kind', pc, z3.BoolVal(True)); report(chk, m, tag, f'string schema converted to {r}'); return
            g = lambda n: opt_val(ex, ex.field(t, n).v)
            bad = [z3.Not(eqz_min(g('min_length'), mnl if has_min else None)), z3.Not(eqz(g('max_length'), mxl if has_max else None))]
            p_ = g('pattern')
            bad.append(z3.BoolVal(not ((p_ is None and not has_pat) or (has_pat and isinstance(p_, SymStr) and p_.term.eq(pat.term)))))
            fm = dv(ex.field(t, 'format').v); fname = ex.variant_name(fm)
            known = {'date': 'Date', 'date-time': 'DateTime', 'password': 'Password', 'byte': 'Byte', 'binary': 'Binary'}
            if fmt is None: bad.append(z3.BoolVal(fname != 'Empty'))
            elif fmt in known: bad.append(z3.BoolVal(not (fname == 'Item' and ex.variant_name(dv(ex.payload(fm))) == known[fmt])))
            else: bad.append(z3.BoolVal(not (fname == 'Unknown' and dv(ex.payload(fm)) == fmt)))
            en = dv(ex.field(t, 'enumeration').v).items
            if has_enum:
                ok_en = len(en) == 2 and dv(en[0].v).discr == 1 and isinstance(dv(ex.payload(dv(en[0].v))), SymStr) and dv(ex.payload(dv(en[0].v))).term.eq(e1.term) and dv(en[1].v).discr == 0
                bad.append(z3.BoolVal(not ok_en))
            else: bad.append(z3.BoolVal(len(en) != 0))
            m = chk.prove(f'{tag}/keywords-preserved', pc, z3.Or(bad), prefer=[mnl == 0, mxl == 0])
            def schema_of(val, has_min=has_min, has_max=has_max, has_pat=has_pat, has_enum=has_enum, fmt=fmt):
                d = {'type': 'string'}
                if has_min: d['minLength'] = val(mnl)
                if has_max: d['maxLength'] = val(mxl)
                if has_pat: d['pattern'] = 'p.*'
                if has_enum: d['enum'] = ['e1', None]
                if fmt: d['format'] = fmt
                return d
            report(chk, m, tag, f'string keywords altered: {t}', schema_of)
        explore(tag, mk, check)


def simple_kinds(chk, ex, b, explore):
    # boolean (with / without enum), null, the match-anything schema, $ref
    for has_enum in (False, True):
        def mk():
            kw = {'enum_values': ex.some(PVec([Cell(b.jbool(True)), Cell(b.jnull())]))} if has_enum else {}
            return (b.schema(b.typed('Boolean', **kw)),)
        def check(pc, r, has_enum=has_enum):
            it = item_of(ex, r)
            t = type_of(ex, it[2], 'Boolean') if it[0] == 'item' else None
            en = dv(ex.field(t, 'enumeration').v).items if t is not None else None
            good = t is not None and ((not has_enum and en == []) or (has_enum and len(en) == 2 and dv(en[0].v).discr == 1 and dv(ex.payload(dv(en[0].v))) is True and dv(en[1].v).discr == 0))
            m = chk.prove(f'boolean/{has_enum}', pc, z3.BoolVal(not good)); report(chk, m, 'boolean', f'boolean schema converted to {r}')
        explore(f'boolean/{has_enum}', mk, check)
    def check_null(pc, r):
        it = item_of(ex, r)
        t = type_of(ex, it[2], 'String') if it[0] == 'item' else None
        en = dv(ex.field(t, 'enumeration').v).items if t is not None else None
        good = t is not None and len(en) == 1 and dv(en[0].v).discr == 0
        m = chk.prove('null/as-null-only-enumeration', pc, z3.BoolVal(not good)); report(chk, m, 'null', f'null schema converted to {r}')
    explore('null', lambda: (b.schema(b.typed('Null')),), check_null)
    def check_any(pc, r):
        it = item_of(ex, r)
        good = it[0] == 'item' and ex.variant_name(dv(it[2])) == 'Any'
        m = chk.prove('any/match-anything-stays-unconstrained', pc, z3.BoolVal(not good)); report(chk, m, 'any', f'`true` schema converted to {r}')
    explore('any-bool-true', lambda: (ex.mk_enum('Schema', 'Bool', [True]),), check_any)
    explore('any-empty-object', lambda: (b.schema(b.schema_object()),), check_any)
    rname = sstr('ref_target')
    def check_ref(pc, r):
        it = item_of(ex, r)
        good = it[0] == 'ref' and isinstance(it[1], SymStr) and it[1].term.eq(rname.term)
        m = chk.prove('ref/reference-kept', pc, z3.BoolVal(not good)); report(chk, m, 'ref', f'$ref converted to {r}')
    explore('ref', lambda: (b.ref(rname),), check_ref)


def child_ok(ex, out, kind, rname):
    """a converted child is the $ref / the integer leaf it was"""
    it = item_of(ex, out)
    if kind == 'ref': return it[0] == 'ref' and isinstance(it[1], SymStr) and it[1].term.eq(rname.term)
    return it[0] == 'item' and type_of(ex, it[2], 'Integer') is not None


def array_object_kinds(chk, ex, b, explore):
    mni, mxi = z3.BitVec('min_items', 32), z3.BitVec('max_items', 32)
    rname = sstr('item_ref')
    for items, has_min, has_max, uniq in [(None, 0, 0, None), ('ref', 1, 0, True), ('leaf', 0, 1, False), ('leaf', 1, 1, None), ('ref', 1, 1, True)]:
        def mk():
            child = None if items is None else ex.mk_enum('SingleOrVec', 'Single', [b.boxed(b.ref(rname) if items == 'ref' else b.schema(b.typed('Integer')))])
            av = ex.mk_struct('ArrayValidation', items=b.opt(child), additional_items=ex.none(), max_items=b.opt(mxi if has_max else None), min_items=b.opt(mni if has_min else None),
                              unique_items=b.opt(uniq), contains=ex.none())
            return (b.schema(b.typed('Array', array=ex.some(b.boxed(av)))),)
        tag = f'array/{items}/{has_min}{has_max}/{uniq}'
        def check(pc, r, items=items, has_min=has_min, has_max=has_max, uniq=uniq, tag=tag):
            it = item_of(ex, r)
            t = type_of(ex, it[2], 'Array') if it[0] == 'item' else None
            if t is None:
                m = chk.prove(f'{tag}/kind', pc, z3.BoolVal(True)); report(chk, m, tag, f'array schema converted to {r}'); return
            g = lambda n: opt_val(ex, ex.field(t, n).v)
            bad = [z3.Not(eqz_min(g('min_items'), mni if has_min else None)), z3.Not(eqz(g('max_items'), mxi if has_max else None)),
                   z3.BoolVal(dv(ex.field(t, 'unique_items').v) != bool(uniq))]
            ch = g('items')
            bad.append(z3.BoolVal(not ((ch is None and items is None) or (ch is not None and items is not None and child_ok(ex, ch, items, rname)))))
            m = chk.prove(f'{tag}/keywords-preserved', pc, z3.Or(bad), prefer=[mni == 0, mxi == 0])
            def schema_of(val, items=items, has_min=has_min, has_max=has_max, uniq=uniq):
                d = {'type': 'array'}
                if items is not None: d['items'] = {'$ref': REF} if items == 'ref' else {'type': 'integer'}
                if has_min: d['minItems'] = val(mni)
                if has_max: d['maxItems'] = val(mxi)
                if uniq is not None: d['uniqueItems'] = uniq
                return d
            report(chk, m, tag, f'array keywords altered: {t}', schema_of)
        explore(tag, mk, check)
    mnp, mxp = z3.BitVec('min_properties', 32), z3.BitVec('max_properties', 32)
    for props, required, addl, has_min, has_max in [([], [], None, 0, 0), (['p1', 'p2'], ['p1'], True, 1, 0), (['p1', 'p2'], ['p1', 'p2'], False, 0, 1),
                                                    (['p1'], [], 'schema', 1, 1), (['p2'], ['p2'], 'ref', 0, 0)]:
        def mk():
            pm = PMap()
            for i, p in enumerate(props): pm.put(p, b.ref(rname) if i % 2 else b.schema(b.typed('Integer')))
            req = PSet()
            for p in required: req.put(p, p)
            ap = None if addl is None else b.boxed(ex.mk_enum('Schema', 'Bool', [addl]) if isinstance(addl, bool) else (b.ref(rname) if addl == 'ref' else b.schema(b.typed('Integer'))))
            ov = ex.mk_struct('ObjectValidation', max_properties=b.opt(mxp if has_max else None), min_properties=b.opt(mnp if has_min else None), required=req, properties=pm,
                              pattern_properties=PMap(), additional_properties=b.opt(ap), property_names=ex.none())
            return (b.schema(b.typed('Object', object=ex.some(b.boxed(ov)))),)
        tag = f'object/{"+".join(props) or "none"}/{"+".join(required) or "none"}/{addl}/{has_min}{has_max}'
        def check(pc, r, props=props, required=required, addl=addl, has_min=has_min, has_max=has_max, tag=tag):
            it = item_of(ex, r)
            t = type_of(ex, it[2], 'Object') if it[0] == 'item' else None
            if t is None:
                m = chk.prove(f'{tag}/kind', pc, z3.BoolVal(True)); report(chk, m, tag, f'object schema converted to {r}'); return
            g = lambda n: opt_val(ex, ex.field(t, n).v)
            bad = [z3.Not(eqz_min(g('min_properties'), mnp if has_min else None)), z3.Not(eqz(g('max_properties'), mxp if has_max else None))]
            pm = dv(ex.field(t, 'properties').v)
            ok_p = isinstance(pm, PMap) and [k for k, _ in pm.items] == sorted(props) and all(child_ok(ex, c.v, 'ref' if props.index(k) % 2 else 'leaf', rname) for k, c in pm.items)
            rq = [dv(c.v) for c in dv(ex.field(t, 'required').v).items]
            ap = g('additional_properties')
            if addl is None: ok_a = ap is None
            elif isinstance(addl, bool): ok_a = ap is not None and ex.variant_name(ap) == 'Any' and dv(ex.payload(ap)) is addl
            else: ok_a = ap is not None and ex.variant_name(ap) == 'Schema' and child_ok(ex, ex.payload(ap), 'ref' if addl == 'ref' else 'leaf', rname)
            bad += [z3.BoolVal(not ok_p), z3.BoolVal(sorted(rq) != sorted(required)), z3.BoolVal(not ok_a)]
            m = chk.prove(f'{tag}/keywords-preserved', pc, z3.Or(bad), prefer=[mnp == 0, mxp == 0])
            def schema_of(val, props=props, required=required, addl=addl, has_min=has_min, has_max=has_max):
                d = {'type': 'object', 'properties': {p: ({'$ref': REF} if i % 2 else {'type': 'integer'}) for i, p in enumerate(props)}, 'required': list(required)}
                if not props: del d['properties']
                if not required: del d['required']
                if addl is not None: d['additionalProperties'] = addl if isinstance(addl, bool) else ({'$ref': REF} if addl == 'ref' else {'type': 'integer'})
                if has_min: d['minProperties'] = val(mnp)
                if has_max: d['maxProperties'] = val(mxp)
                return d
            report(chk, m, tag, f'object keywords altered: {t}', schema_of)
        explore(tag, mk, check)
    # an object schema without validation keywords
    def check_plain(pc, r):
        it = item_of(ex, r)
        t = type_of(ex, it[2], 'Object') if it[0] == 'item' else None
        good = t is not None and not dv(ex.field(t, 'properties').v).items and not dv(ex.field(t, 'required').v).items and opt_val(ex, ex.field(t, 'additional_properties').v) is None
        m = chk.prove('object/plain', pc, z3.BoolVal(not good)); report(chk, m, 'object/plain', f'plain object converted to {r}')
    explore('object/plain', lambda: (b.schema(b.typed('Object')),), check_plain)


def subschema_kinds(chk, ex, b, explore):
    rname = sstr('sub_ref')
    for key, variant in (('all_of', 'AllOf'), ('any_of', 'AnyOf'), ('one_of', 'OneOf')):
        for n in (1, 2):
            def mk():
                subs = PVec([Cell(b.ref(rname) if i % 2 == 0 else b.schema(b.typed('Integer'))) for i in range(n)])
                d = dict(all_of=ex.none(), any_of=ex.none(), one_of=ex.none(), **{'not': ex.none()}, if_schema=ex.none(), then_schema=ex.none(), else_schema=ex.none())
                d[key] = ex.some(subs)
                return (b.schema(b.schema_object(subschemas=ex.some(b.boxed(ex.mk_struct('SubschemaValidation', **d))))),)
            def check(pc, r, key=key, variant=variant, n=n):
                it = item_of(ex, r)
                k = dv(it[2]) if it[0] == 'item' else None
                good = k is not None and ex.variant_name(k) == variant
                if good:
                    lst = dv(ex.payload(k)).items
                    good = len(lst) == n and all(child_ok(ex, c.v, 'ref' if i % 2 == 0 else 'leaf', rname) for i, c in enumerate(lst))
                m = chk.prove(f'{key}/{n}/alternatives-preserved-in-order', pc, z3.BoolVal(not good))
                jkey = {'all_of': 'allOf', 'any_of': 'anyOf', 'one_of': 'oneOf'}[key]
                report(chk, m, key, f'{key} converted to {r}', lambda val, n=n, jkey=jkey: {jkey: [({'$ref': REF} if i % 2 == 0 else {'type': 'integer'}) for i in range(n)]})
            explore(f'{key}/{n}', mk, check)
    def mk_not():
        d = dict(all_of=ex.none(), any_of=ex.none(), one_of=ex.none(), **{'not': ex.some(b.boxed(b.ref(rname)))}, if_schema=ex.none(), then_schema=ex.none(), else_schema=ex.none())
        return (b.schema(b.schema_object(subschemas=ex.some(b.boxed(ex.mk_struct('SubschemaValidation', **d))))),)
    def check_not(pc, r):
        it = item_of(ex, r)
        k = dv(it[2]) if it[0] == 'item' else None
        good = k is not None and ex.variant_name(k) == 'Not' and child_ok(ex, ex.payload(k), 'ref', rname)
        m = chk.prove('not/preserved', pc, z3.BoolVal(not good)); report(chk, m, 'not', f'not converted to {r}')
    explore('not', mk_not, check_not)


def void_schema(chk, ex, b):
    """api_description::is_empty decides whether a response publishes a body schema at all: it may answer true only for a schema that accepts
    no JSON value (`false`, or a lone `not` of a schema that accepts everything); any other schema must still be published"""
    F = mir.find(ex.fns, r'(^|::)api_description::is_empty$')
    sv = lambda t: ex.some(ex.mk_enum('SingleOrVec', 'Single', [b.boxed(ex.mk_enum('InstanceType', t))]))
    leafs = {
        'instance_type': (lambda: sv('String'), {'type': 'string'}), 'format': (lambda: ex.some(sstr('fmt')), {'format': 'f'}),
        'enum_values': (lambda: ex.some(PVec([Cell(b.jstr(sstr('ev')))])), {'enum': ['a']}), 'const_value': (lambda: ex.some(b.jstr(sstr('cv'))), {'const': 'c'}),
        'number': (lambda: ex.some(b.boxed(b.number(minimum=1.0))), {'minimum': 1.0}),
        'string': (lambda: ex.some(b.boxed(ex.mk_struct('StringValidation', max_length=ex.some(z3.BitVecVal(3, 32)), min_length=ex.none(), pattern=ex.none()))), {'maxLength': 3}),
        'array': (lambda: ex.some(b.boxed(ex.mk_struct('ArrayValidation', items=ex.none(), additional_items=ex.none(), max_items=ex.some(z3.BitVecVal(3, 32)), min_items=ex.none(),
                                                        unique_items=ex.none(), contains=ex.none()))), {'maxItems': 3}),
        'object': (lambda: ex.some(b.boxed(ex.mk_struct('ObjectValidation', max_properties=ex.some(z3.BitVecVal(3, 32)), min_properties=ex.none(), required=PSet(), properties=PMap(),
                                                         pattern_properties=PMap(), additional_properties=ex.none(), property_names=ex.none()))), {'maxProperties': 3}),
        'reference': (lambda: ex.some(sstr('rf')), {'$ref': REF}),
    }
    subkeys = ['all_of', 'any_of', 'one_of', 'if_schema', 'then_schema', 'else_schema']
    jsub = {'all_of': 'allOf', 'any_of': 'anyOf', 'one_of': 'oneOf', 'if_schema': 'if', 'then_schema': 'then', 'else_schema': 'else'}
    def subs(not_=None, other=None):
        d = dict(all_of=ex.none(), any_of=ex.none(), one_of=ex.none(), **{'not': ex.none()}, if_schema=ex.none(), then_schema=ex.none(), else_schema=ex.none())
        if not_ is not None: d['not'] = ex.some(b.boxed(not_))
        if other in ('all_of', 'any_of', 'one_of'): d[other] = ex.some(PVec([Cell(b.schema(b.typed('Integer')))]))
        elif other: d[other] = ex.some(b.boxed(b.schema(b.typed('Integer'))))
        return ex.some(b.boxed(ex.mk_struct('SubschemaValidation', **d)))
    # the negated schema: (builder, JSON, accepts every value)
    inner = [('true', lambda: ex.mk_enum('Schema', 'Bool', [True]), True, True), ('false', lambda: ex.mk_enum('Schema', 'Bool', [False]), False, False),
             ('{}', lambda: b.schema(b.schema_object()), {}, True),
             ('{described}', lambda: b.schema(b.schema_object(metadata=ex.some(b.boxed(Opaque('metadata'))))), {'description': 'd'}, True)]
    for k, (mk, js) in leafs.items():
        inner.append((f'{{{k}}}', (lambda k=k, mk=mk: b.schema(b.schema_object(**{k: mk()}))), js, False))
    inner.append(('{not {}}', lambda: b.schema(b.schema_object(subschemas=subs(not_=b.schema(b.schema_object())))), {'not': {}}, False))
    shapes = [('false', lambda: ex.mk_enum('Schema', 'Bool', [False]), False, True), ('true', lambda: ex.mk_enum('Schema', 'Bool', [True]), True, False),
              ('{}', lambda: b.schema(b.schema_object()), {}, False)]
    for k, (mk, js) in leafs.items():
        shapes.append((f'{{{k}}}', (lambda k=k, mk=mk: b.schema(b.schema_object(**{k: mk()}))), js, False))
    for iname, imk, ijs, iall in inner:
        shapes.append((f'not {iname}', (lambda imk=imk: b.schema(b.schema_object(subschemas=subs(not_=imk())))), {'not': ijs}, iall))
        shapes.append((f'described not {iname}', (lambda imk=imk: b.schema(b.schema_object(metadata=ex.some(b.boxed(Opaque('metadata'))), subschemas=subs(not_=imk())))),
                       {'description': 'd', 'not': ijs}, iall))
        for k, (mk, js) in leafs.items():
            shapes.append((f'{{{k}}} + not {iname}', (lambda k=k, mk=mk, imk=imk: b.schema(b.schema_object(subschemas=subs(not_=imk()), **{k: mk()}))), dict(js, **{'not': ijs}), None))
        for o in subkeys:
            shapes.append((f'{o} + not {iname}', (lambda o=o, imk=imk: b.schema(b.schema_object(subschemas=subs(not_=imk(), other=o)))),
                           {jsub[o]: ([{'type': 'integer'}] if o in subkeys[:3] else {'type': 'integer'}), 'not': ijs}, None))
    n_void = 0
    for name, mk, js, void in shapes:
        outs = ex.explore(lambda ex: ex.call_fn(F, [Ref(Cell(mk()))]), [])
        chk.paths += len(outs)
        if not outs: raise Inconclusive(f'vacuity: is_empty explored no path for {name}; {ex.unsupported_paths[-1:]}')
        for pc, (k, r) in outs:
            if k != 'ok':
                m = chk.prove(f'void-schema/{name}/no-panic', pc, z3.BoolVal(True))
                if m is not None: chk.mismatches.append(f'is_empty panics on {name}: {r}')
                continue
            says = ex.truth(r) if z3.is_expr(r) else bool(r)
            if void is True and says: n_void += 1
            # `void is None`: the schema accepts nothing as well (a lone `not` of everything next to other keywords); either answer is sound
            m = chk.prove(f'void-schema/{name}/omitted-only-if-nothing-is-accepted', pc, z3.BoolVal(bool(says) and void is False))
            if m is not None:
                case = {'op': 'j2oas', 'schema': js}
                nat = replay([case])[0]
                out = nat.get('openapi')
                chk.counterexample(f'is_empty treats the schema {js} ({name}) as accepting nothing, so a response of that type publishes no body schema; native document: {out}',
                                   case, out is None and 'panic' not in nat, role='void-schema')
    if n_void < 3: raise Inconclusive(f'vacuity: is_empty recognised only {n_void} of the void schemas')
    chk.bounds['void_schema_shapes'] = f'{len(shapes)} shapes: false / true / one keyword / a `not` of 15 inner shapes alone, described, next to each keyword and each other subschema keyword'


def same(a, b_):
    """structural identity of two schema values (the code under test only moves / clones them)"""
    a, b_ = dv(a), dv(b_)
    if isinstance(a, Adt) and isinstance(b_, Adt):
        if a.ty != b_.ty or a.discr != b_.discr or set(a.fields) != set(b_.fields): return False
        return all(len(a.fields[k]) == len(b_.fields[k]) and all(same(x.v, y.v) for x, y in zip(a.fields[k], b_.fields[k])) for k in a.fields)
    if isinstance(a, PVec) and isinstance(b_, PVec): return len(a.items) == len(b_.items) and all(same(x.v, y.v) for x, y in zip(a.items, b_.items))
    if isinstance(a, (PMap, PSet)) and type(a) is type(b_):
        return len(a.items) == len(b_.items) and all(k1 == k2 and same(x.v if isinstance(x, Cell) else x, y.v if isinstance(y, Cell) else y) for (k1, x), (k2, y) in zip(a.items, b_.items))
    if isinstance(a, SymStr) and isinstance(b_, SymStr): return a.term.eq(b_.term)
    if z3.is_expr(a) and z3.is_expr(b_): return a.eq(b_)
    if isinstance(a, Opaque) or isinstance(b_, Opaque): return a is b_
    return type(a) is type(b_) and a == b_


def extract_description(chk, ex, b):
    """schema_extract_description (how parameter / header schemas are placed): only the one-member `allOf` wrapper schemars emits for
    a described $ref is unwrapped; anything else keeps every keyword and loses only its metadata, whose description is returned"""
    F = mir.find(ex.fns, r'(^|::)schema_extract_description$')
    desc, r0 = sstr('wrapper_description'), sstr('member_ref')
    def member(i): return b.ref(r0) if i % 2 == 0 else b.schema(b.typed('Integer', format=ex.some(f'int{i}')))
    def meta(): return ex.some(b.boxed(ex.mk_struct('Metadata', id=ex.none(), title=ex.none(), description=ex.some(desc), default=ex.none(), deprecated=False, read_only=False, write_only=False, examples=PVec())))
    def obj(n, has_meta, extra, with_meta=None):
        d = dict(all_of=ex.none(), any_of=ex.none(), one_of=ex.none(), **{'not': ex.none()}, if_schema=ex.none(), then_schema=ex.none(), else_schema=ex.none())
        kw = {}
        if n:
            d['all_of'] = ex.some(PVec([Cell(member(i)) for i in range(n)]))
            if extra == 'any_of': d['any_of'] = ex.some(PVec([Cell(member(1))]))
            if extra == 'not': d['not'] = ex.some(b.boxed(member(1)))
            kw['subschemas'] = ex.some(b.boxed(ex.mk_struct('SubschemaValidation', **d)))
        if extra == 'type': kw['instance_type'] = ex.some(ex.mk_enum('SingleOrVec', 'Single', [b.boxed(ex.mk_enum('InstanceType', 'String'))]))
        if extra == 'format': kw['format'] = ex.some('uuid')
        if extra == 'enum': kw['enum_values'] = ex.some(PVec([Cell(b.jstr(sstr('only')))]))
        if extra == 'string': kw['string'] = ex.some(b.boxed(ex.mk_struct('StringValidation', max_length=ex.some(z3.BitVec('mxl', 32)), min_length=ex.none(), pattern=ex.none())))
        if has_meta if with_meta is None else with_meta: kw['metadata'] = meta()
        return b.schema_object(**kw)
    shapes = [(n, hm, None) for n in (1, 2, 3) for hm in (0, 1)] + [(1, 1, x) for x in ('any_of', 'not', 'type', 'format', 'enum', 'string')] + [(0, 1, 'type'), (0, 0, 'string'), (2, 1, 'type')]
    seen = set()
    for n, has_meta, extra in shapes:
        tag = f'extract-description/allOf{n}/{"described" if has_meta else "bare"}/{extra or "plain"}'
        outs = ex.explore(lambda ex: ex.call_fn(F, [Ref(Cell(b.schema(obj(n, has_meta, extra))))]), [])
        chk.paths += len(outs)
        for pc, (k, r) in outs:
            if k != 'ok':
                m = chk.prove(f'{tag}/no-panic', pc, z3.BoolVal(True))
                if m is not None: chk.mismatches.append(f'schema_extract_description panics on {tag}: {r}')
                continue
            got_d, got_s = opt_val(ex, r.items[0].v), r.items[1].v
            trivial = n == 1 and extra is None
            want_s = member(0) if trivial else b.schema(obj(n, has_meta, extra, with_meta=False))
            seen.add('unwrapped' if trivial else 'kept')
            good = same(got_s, want_s) and ((isinstance(got_d, SymStr) and got_d.term.eq(desc.term)) if has_meta else got_d is None)
            m = chk.prove(f'{tag}/every-constraint-kept-description-returned', pc, z3.BoolVal(not good))
            if m is None: continue
            # the same shape through the public API: the schema of a declared response header
            mem = lambda i: {'type': 'string', 'pattern': f'p{i}'}
            schema = {}
            if n: schema['allOf'] = [mem(i) for i in range(n)]
            if extra == 'any_of': schema['anyOf'] = [mem(1)]
            if extra == 'not': schema['not'] = mem(1)
            if extra == 'type' or extra == 'string': schema['type'] = 'string'
            if extra == 'format': schema['format'] = 'uuid'
            if extra == 'enum': schema['enum'] = ['only']
            if extra == 'string': schema['maxLength'] = 7
            if has_meta: schema['description'] = 'dd'
            case = {'op': 'j2oas', 'schema': schema, 'as_header': True}
            nat = replay([case])[0]
            hdr = nat.get('header') or {}
            want = mem(0) if trivial else {k_: v for k_, v in schema.items() if k_ != 'description'}
            lost = keyword_loss(want, hdr.get('schema')) if 'header' in nat else [f'native: {nat}']
            if has_meta and hdr.get('description') != 'dd' and (hdr.get('schema') or {}).get('description') != 'dd': lost.append('description')
            chk.counterexample(f'schema_extract_description({tag}) returned ({got_d}, {str(got_s)[:300]}); as a response header {schema} is published as {hdr}: {lost[:4]}',
                               case, bool(lost), role='extract-description')
    if seen != {'unwrapped', 'kept'}: raise Inconclusive(f'vacuity: schema_extract_description outcomes {seen}')


def reference_closure(chk, ex, b):
    """schema_util::ReferenceVisitor (which named schemas a parameter / header schema drags into components.schemas): from a schema that
    refers to X, the collected dependencies are exactly the definitions reachable through `$ref`s - also when a definition is itself
    nothing but a `$ref`, also through array items / properties / allOf members, each once, and cycles terminate.
    schemars::visit::{visit_schema, visit_schema_object} are replaced by their documented traversal (children of the object: subschema
    lists, array items, object properties, additionalProperties)."""
    f = ex.fns
    F_visit = [n for n in f if re.search(r'^schema_util::<impl at [^>]*>::visit_schema_object$', n) and 'ReferenceVisitor' in f[n].locals.get('_1', '')]
    if len(F_visit) != 1: raise Inconclusive(f'cannot locate ReferenceVisitor::visit_schema_object: {F_visit}')
    PREFIX = '#/components/schemas/'
    if 'SchemaSettings' not in ex.L.structs:
        lock = open(os.path.join(REPO, 'Cargo.lock')).read()
        for v in re.findall(r'name = "schemars"\nversion = "([^"]+)"', lock):
            for p_ in glob.glob(os.path.expanduser(f'~/.cargo/registry/src/*/schemars-{v}/src/gen.rs')): ex.L.add_source(p_, only={'SchemaSettings'})
        if 'SchemaSettings' not in ex.L.structs: raise Inconclusive('layout of schemars::gen::SchemaSettings not found')
    def ref(name): return b.schema(b.schema_object(reference=ex.some(PREFIX + name)))
    def leaf(): return b.schema(b.typed('Integer'))
    def arr_of(s_): return b.schema(b.typed('Array', array=ex.some(b.boxed(ex.mk_struct('ArrayValidation', items=ex.some(ex.mk_enum('SingleOrVec', 'Single', [b.boxed(s_)])), additional_items=ex.none(),
                                                                                          max_items=ex.none(), min_items=ex.none(), unique_items=ex.none(), contains=ex.none())))))
    def obj_of(**props):
        pm = PMap()
        for k_, v_ in props.items(): pm.put(k_, v_)
        return b.schema(b.typed('Object', object=ex.some(b.boxed(ex.mk_struct('ObjectValidation', max_properties=ex.none(), min_properties=ex.none(), required=PSet(), properties=pm,
                                                                             pattern_properties=PMap(), additional_properties=ex.none(), property_names=ex.none())))))
    def all_of(*ms):
        d = dict(all_of=ex.some(PVec([Cell(m_) for m_ in ms])), any_of=ex.none(), one_of=ex.none(), **{'not': ex.none()}, if_schema=ex.none(), then_schema=ex.none(), else_schema=ex.none())
        return b.schema(b.schema_object(subschemas=ex.some(b.boxed(ex.mk_struct('SubschemaValidation', **d)))))
    # (name, definitions, root schema builder, expected dependency names)
    worlds = [
        ('leaf-def', lambda: {'A': leaf()}, lambda: ref('A'), {'A'}),
        ('bare-ref-def', lambda: {'A': ref('B'), 'B': leaf()}, lambda: ref('A'), {'A', 'B'}),
        ('chain-of-three', lambda: {'A': ref('B'), 'B': ref('C'), 'C': leaf()}, lambda: ref('A'), {'A', 'B', 'C'}),
        ('through-array', lambda: {'A': arr_of(ref('B')), 'B': leaf(), 'Z': leaf()}, lambda: ref('A'), {'A', 'B'}),
        ('through-properties', lambda: {'A': obj_of(p=ref('B'), q=ref('C')), 'B': leaf(), 'C': ref('B')}, lambda: ref('A'), {'A', 'B', 'C'}),
        ('through-allof', lambda: {'A': all_of(ref('B'), leaf()), 'B': leaf()}, lambda: all_of(ref('A'), ref('B')), {'A', 'B'}),
        ('cycle', lambda: {'A': obj_of(next=ref('B')), 'B': obj_of(back=ref('A'))}, lambda: arr_of(ref('A')), {'A', 'B'}),
        ('no-ref', lambda: {'A': leaf()}, lambda: arr_of(leaf()), set()),
    ]
    def children(obj):
        """direct sub-schemas of a SchemaObject, as schemars::visit::visit_schema_object walks them (cells, so that visitors can mutate)"""
        out = []
        def opt(c):
            v = dv(c.v)
            return None if v.discr == 0 else ex.payload(v)
        sub = opt(ex.field(obj, 'subschemas'))
        if sub is not None:
            sv = dv(sub)
            for k_ in ('all_of', 'any_of', 'one_of'):
                lst = opt(ex.field(sv, k_))
                if lst is not None: out += list(dv(lst).items)
            for k_ in ('not', 'if_schema', 'then_schema', 'else_schema'):
                one = opt(ex.field(sv, k_))
                if one is not None: out.append(one.cell if isinstance(one, Ref) else Cell(one))
        arr = opt(ex.field(obj, 'array'))
        if arr is not None:
            items = opt(ex.field(dv(arr), 'items'))
            if items is not None:
                it = dv(items)
                if ex.variant_name(it) == 'Single':
                    one = ex.payload(it); out.append(one.cell if isinstance(one, Ref) else Cell(one))
                else: out += list(dv(ex.payload(it)).items)
        ob = opt(ex.field(obj, 'object'))
        if ob is not None:
            o = dv(ob)
            out += [c for _, c in dv(ex.field(o, 'properties').v).items] + [c for _, c in dv(ex.field(o, 'pattern_properties').v).items]
            ap = opt(ex.field(o, 'additional_properties'))
            if ap is not None: out.append(ap.cell if isinstance(ap, Ref) else Cell(ap))
        return out
    def m_visit_schema(ex, a, c):
        s_ = dv(a[1])
        if isinstance(s_, Adt) and s_.ty == 'Schema' and ex.variant_name(s_) == 'Object':
            ex.call_fn(F_visit[0], [a[0], Ref(s_.fields[s_.discr][0])])
        return Tup([])
    def m_visit_schema_object(ex, a, c):
        for cell in children(dv(a[1])): m_visit_schema(ex, [a[0], Ref(cell)], c)
        return Tup([])
    class Gen:
        defs = None
    local = [(r'^schemars::visit::visit_schema::<', m_visit_schema), (r'^schemars::visit::visit_schema_object::<', m_visit_schema_object),
             (r'SchemaGenerator::settings$', lambda ex, a, c: Ref(Cell(ex.mk_struct_partial('SchemaSettings', definitions_path=PREFIX)))),
             (r'SchemaGenerator::definitions$', lambda ex, a, c: Ref(Cell(Gen.defs))),
             (r'<(schemars::schema::)?Schema as Clone>::clone$', lambda ex, a, c: copy.deepcopy(dv(a[0]))),
             (r'IndexMap::<.*>::contains_key::<', lambda ex, a, c: any(k_ == dv(a[1]) for k_, _ in dv(a[0]).items)),
             (r'IndexMap::<.*>::insert$', lambda ex, a, c: (dv(a[0]).put(dv(a[1]), a[2]), ex.none())[1]),
             (r'IndexMap::<.*>::new$', lambda ex, a, c: PMap())]
    import copy
    saved = ex.models
    ex.models = local + ex.models
    try:
        for name, mk_defs, mk_root, want in worlds:
            def h(ex):
                Gen.defs = PMap()
                for k_, v_ in mk_defs().items(): Gen.defs.put(k_, v_)
                vis = ex.mk_struct('ReferenceVisitor', generator=Ref(Cell(Opaque('generator'))), dependencies=PMap())
                vc = Cell(vis)
                root = mk_root()
                m_visit_schema(ex, [Ref(vc), Ref(Cell(root))], '')
                return dv(ex.field(vc.v, 'dependencies').v)
            outs = ex.explore(h, [])
            chk.paths += len(outs)
            if not outs: raise Inconclusive(f'vacuity: reference closure {name} has no path; {ex.unsupported_paths[-2:]}')
            for pc, (k, r) in outs:
                tag = f'reference-closure/{name}'
                if k != 'ok':
                    m = chk.prove(f'{tag}/no-panic', pc, z3.BoolVal(True))
                    if m is not None: chk.mismatches.append(f'ReferenceVisitor panics on {name}: {r}')
                    continue
                got = [k_ for k_, _ in r.items]
                placeholders = [k_ for k_, c in r.items if isinstance(dv(c.v), Adt) and dv(c.v).ty == 'Schema' and ex.variant_name(dv(c.v)) == 'Bool']
                good = set(got) == want and len(got) == len(set(got)) and not placeholders
                m = chk.prove(f'{tag}/exactly-the-reachable-definitions', pc, z3.BoolVal(not good))
                if m is not None:
                    case = {'op': 'openapi', 'endpoints': [], 'orders': [[]], 'versions': ['1.0.0']}
                    nat = replay([case])[0]
                    chk.counterexample(f'ReferenceVisitor on {name}: collected {got} (placeholders left: {placeholders}), reachable {sorted(want)}; the native document (a header whose type is a '
                                       f'newtype around a named enum): all $refs resolve = {nat.get("refs_resolve")}', case, not nat.get('refs_resolve', False), role='reference-closure')
    finally:
        ex.models = saved


def annotations(chk, ex, b, explore):
    title, desc, dflt, xval, example, name = sstr('title'), sstr('description'), sstr('default_value'), sstr('x_value'), sstr('example'), sstr('component_name')
    dep, ro, wo = z3.Bools('deprecated read_only write_only')
    for has_meta, default_kind, nullable, has_x, has_example, has_name in [(0, None, None, 0, 0, 0), (1, 'str', True, 1, 1, 0), (1, 'null', False, 1, 0, 1), (1, None, 'str', 0, 1, 1),
                                                                           (1, 'str', True, 0, 0, 0), (0, None, True, 1, 1, 1)]:
        def mk():
            ext = PMap()
            if nullable is not None: ext.put('nullable', b.jbool(True) if nullable is True else (b.jbool(False) if nullable is False else b.jstr(sstr('not_a_bool'))))
            if has_x: ext.put('x-rust-type', b.jstr(xval))
            if has_example: ext.put('example', b.jstr(example))
            ext.put('unrelated', b.jstr(sstr('dropped')))
            kw = dict(extensions=ext)
            if has_meta:
                dv_ = None if default_kind is None else (b.jstr(dflt) if default_kind == 'str' else b.jnull())
                kw['metadata'] = ex.some(b.boxed(ex.mk_struct('Metadata', id=ex.none(), title=ex.some(title), description=ex.some(desc), default=b.opt(dv_),
                                                                deprecated=dep, read_only=ro, write_only=wo, examples=PVec())))
            return (b.schema(b.typed('Integer', **kw)), name if has_name else None)
        tag = f'annotations/{has_meta}/{default_kind}/{nullable}/{has_x}{has_example}{has_name}'
        def check(pc, r, has_meta=has_meta, default_kind=default_kind, nullable=nullable, has_x=has_x, has_example=has_example, has_name=has_name, tag=tag):
            it = item_of(ex, r)
            if it[0] != 'item':
                m = chk.prove(f'{tag}/kind', pc, z3.BoolVal(True)); report(chk, m, tag, f'annotated schema converted to {r}'); return
            d = dv(it[1])
            g = lambda n: opt_val(ex, ex.field(d, n).v)
            def is_s(v, s_): return isinstance(v, SymStr) and v.term.eq(s_.term)
            def jstr_is(v, s_): return isinstance(v, Adt) and v.ty == 'Value' and ex.variant_name(v) == 'String' and is_s(dv(ex.payload(v)), s_)
            bad = []
            want_title = name if has_name else (title if has_meta else None)
            bad.append(z3.BoolVal(not (is_s(g('title'), want_title) if want_title is not None else g('title') is None)))
            bad.append(z3.BoolVal(not (is_s(g('description'), desc) if has_meta else g('description') is None)))
            dfl = g('default')
            if not has_meta or default_kind is None: bad.append(z3.BoolVal(dfl is not None))
            elif default_kind == 'str': bad.append(z3.BoolVal(not jstr_is(dfl, dflt)))
            else: bad.append(z3.BoolVal(not (isinstance(dfl, Adt) and ex.variant_name(dfl) == 'Null')))
            for fld, sym in (('deprecated', dep), ('read_only', ro), ('write_only', wo)):
                v = dv(ex.field(d, fld).v)
                bad.append((zbool(v) != sym) if has_meta else z3.BoolVal(v is not False))
            bad.append(z3.BoolVal(dv(ex.field(d, 'nullable').v) != (nullable is True)))
            xs = dv(ex.field(d, 'extensions').v)
            keys = [k for k, _ in xs.items] if isinstance(xs, PMap) else None
            bad.append(z3.BoolVal(keys != (['x-rust-type'] if has_x else [])))
            if has_x and keys == ['x-rust-type']: bad.append(z3.BoolVal(not jstr_is(dv(xs.items[0][1].v), xval)))
            exv = g('example')
            bad.append(z3.BoolVal(not (jstr_is(exv, example) if has_example else exv is None)))
            m = chk.prove(f'{tag}/annotations-kept', pc, z3.Or(bad))
            if m is not None:
                case = {'op': 'j2oas', 'schema': {'type': 'integer', 'title': 't', 'description': 'd', 'default': None if default_kind == 'null' else 'dv', 'deprecated': True,
                                                   'nullable': nullable is True, 'x-rust-type': 'x', 'example': 'e'}, 'null_default': default_kind == 'null'}
                nat = replay([case])[0]
                chk.counterexample(f'annotations lost or altered ({tag}): {d} -> native {nat}', case, not nat.get('annotations_kept', False), role='annotations')
        explore(tag, mk, check)


def witnesses(chk):
    # a named, annotated type shared between a query parameter and a response body keeps its annotations in components.schemas
    case = {'op': 'openapi', 'endpoints': [], 'orders': [[]], 'versions': ['1.0.0']}
    r = replay([case])[0]
    chk.replayed += 1
    st = r.get('shared_type') or {}
    if not (st.get('example') == 'ByName' and 'description' in st and len(st.get('oneOf', [])) == 2 and r.get('refs_resolve')):
        chk.counterexample(f'a type used as query parameter member and in a response body is published as {st} (annotations of its schema lost, or dangling $ref)', case, True, role='wire:shared-type')
    cases = [{'op': 'j2oas', 'schema': s_} for s_ in [
        {'type': 'integer', 'format': 'int32', 'minimum': -40.0, 'maximum': 50.0}, {'type': 'integer', 'minimum': -273.0, 'maximum': -1.0, 'multipleOf': 3.0},
        {'type': 'integer', 'exclusiveMinimum': -5.0, 'exclusiveMaximum': 5.0}, {'type': 'number', 'format': 'double', 'minimum': -1.5, 'exclusiveMaximum': 2.25},
        {'type': 'integer', 'format': 'uint8', 'minimum': 0.0, 'maximum': 255.0}, {'not': {'type': 'string'}}, {'type': 'integer', 'title': 't', 'description': 'd', 'default': None, 'nullable': True, 'x-rust-type': 'x', 'example': 'e'},
    ]]
    cases[-1]['null_default'] = True
    res = replay(cases)
    for c, r in zip(cases, res):
        chk.replayed += 1
        if not (r.get('equivalent') and r.get('annotations_kept', True)):
            chk.counterexample(f'JSON Schema {c["schema"]} -> native OpenAPI {r}', c, True, role='wire')
        if len(chk.samples) < 6: chk.samples.append({'schema': c['schema'], 'native': r})

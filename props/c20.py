"""C20 — WebSocket upgrades follow the RFC 6455 handshake (handshake only)."""
import multiprocessing as mp
import os
import re
import time
import traceback

import z3

from mirsym import mir, refeval
from mirsym.core import Adt, Cell, Opaque, Panic, PVec, Ref, SB, SymStr, Tup, Unsupported, dv, StrSort, zand, zor, znot, zbool
from mirsym.models import BASE_MODELS, sb_bytes
from mirsym.runner import Check, Inconclusive, replay, replay_bin
from props import asyncmodel as AM, httpmodel, strmodel
from props.httpmodel import HMap, HV, Request, Response
from props.strmodel import b8, c8, ascii_lower

GUID = b'258EAFA5-E914-47DA-95CA-C5AB0DC85B11'


class Sha1:
    def __init__(self): self.updates = []


def m_sha_update(ex, args, callee):
    dv(args[0]).updates.append(dv(args[1])); return Tup([])


def m_b64_encode(ex, args, callee):
    e = dv(args[0])
    eng = e.payload.split('::')[-1] if isinstance(e, Opaque) and e.tag == 'const' else str(e)
    return Opaque('b64', (eng, dv(args[1])))


MODELS = [
    (r'<.*Sha1.* as Default>::default$|<CoreWrapper<.*> as Default>::default$', lambda ex, a, c: Sha1()),
    (r' as (sha1::)?(digest::)?(Digest|Update)>::update(::<.*>)?$', m_sha_update),
    (r' as (sha1::)?(digest::)?(Digest|FixedOutput)>::finalize(_fixed)?$', lambda ex, a, c: Opaque('sha1', list(dv(a[0]).updates))),
    (r'<GeneralPurpose as Engine>::encode::', m_b64_encode),
    (r'Request::<.*>::uri$', lambda ex, a, c: Ref(Cell(Opaque('uri')))),
    (r'<Uri as ToString>::to_string$', lambda ex, a, c: 'uri-text'),
    (r'^(hyper::upgrade::)?on::<', lambda ex, a, c: Opaque('on-upgrade', a[0])),
    (r'^Logger::<.*>::new::<|SingleKV<.*> as From<|^slog::', lambda ex, a, c: Opaque('slog')),
    (r'^tokio::spawn::<|^tokio::task::spawn::<|^spawn::<', lambda ex, a, c: (Spawned.tasks.append(a[0]), Opaque('join-handle'))[1]),
]


class Spawned:
    tasks = []


def list_has_token(bs, token, decide):
    """the header value carries `token`: splitting on commas and optional whitespace (SP / HTAB) yields an element equal to it,
    ASCII case-insensitively (RFC 9110 #token lists; RFC 6455 4.2.1 items 3, 4)"""
    cur, found = [], False
    def is_token(el):
        if len(el) != len(token): return False
        return decide(z3.And([ascii_lower(x) == c8(ch) for x, ch in zip(el, token.lower())])) if el else False
    for b in bs:
        if decide(z3.Or(b8(b) == c8(','), b8(b) == c8(' '), b8(b) == c8('\t'))):
            if is_token(cur): found = True
            cur = []
        else:
            cur.append(b)
    if is_token(cur): found = True
    return found


G = {}


def mk_header(name, n, sym):
    """a header value of n bytes (visible ASCII + SP + HTAB), symbolic presence and ASCII-ness"""
    bs = [z3.BitVec(f'{name}_{i}', 8) for i in range(n)] if sym else None
    return bs


def run_case(sub, ex, conn_n, upg_n, part=None):
    """Connection value symbolic with conn_n bytes (or fixed 'Upgrade' if None); likewise Upgrade.
    `part` = (k, bits): case split on whether each of the first k symbolic bytes is a list separator (scheduling only)"""
    F, F_handle = G['F_from'], G['F_handle']
    conn = [z3.BitVec(f'c{i}', 8) for i in range(conn_n)] if conn_n is not None else list(b'keep-alive, Upgrade')
    upg = [z3.BitVec(f'u{i}', 8) for i in range(upg_n)] if upg_n is not None else list(b'websocket')
    ver = [z3.BitVec(f'v{i}', 8) for i in range(2)]
    p = {k: z3.Bool(f'present_{k}') for k in ('connection', 'upgrade', 'version', 'key')}
    asc = {k: z3.Bool(f'ascii_{k}') for k in ('connection', 'upgrade')}
    key = SB([z3.BitVec(f'k{i}', 8) for i in range(2)])
    sym_bytes = [b for b in conn + upg + ver if z3.is_expr(b)]
    # header values: HTAB, SP, visible ASCII (what http::HeaderValue::to_str accepts)
    assume = [z3.Or(b == 9, z3.And(z3.UGE(b, 32), z3.ULE(b, 126))) for b in sym_bytes]
    # the key: any octets a header value can carry (visible ASCII or obs-text >= 0x80; surrounding whitespace is stripped by the HTTP parser)
    assume += [z3.And(z3.UGE(b, 0x21), b != 0x7f) for b in key.bs]
    if part is not None:
        k, bits = part
        for i in range(k):
            sep = z3.Or(sym_bytes[i] == 44, sym_bytes[i] == 32, sym_bytes[i] == 9)
            assume.append(sep if (bits >> i) & 1 else z3.Not(sep))
    def h(ex):
        Spawned.tasks = []
        hm = HMap([('connection', HV(SB(conn), asc['connection'], p['connection'])), ('upgrade', HV(SB(upg), asc['upgrade'], p['upgrade'])),
                   ('sec-websocket-version', HV(SB(ver), True, p['version'])), ('sec-websocket-key', HV(key, True, p['key'])),
                   # headers that have nothing to do with the handshake may be there or not (a client library announcing an empty body)
                   ('content-length', HV('0', True, z3.Bool('present_content_length'))), ('x-unrelated', HV('v', True, z3.Bool('present_unrelated')))])
        req = Request(headers=hm)
        rq = ex.mk_struct_partial('RequestContext', log=Opaque('log'))
        fut = ex.call_fn(F, [Ref(Cell(rq)), req])
        cell = AM.pinned(fut)
        if isinstance(cell.v, Ref): cell = cell.v.cell
        r = AM.drive(ex, cell)
        if r.discr == 1: return ('err', httpmodel.status_of(ex, ex.payload(r)))
        up = ex.payload(r)
        resp = ex.call_fn(F_handle, [up, Opaque('user-handler')])
        return ('ok', up, resp, len(Spawned.tasks))
    outs = ex.explore(h, assume)
    sub.paths += len(outs)
    tag = f'c{conn_n}/u{upg_n}' + (f'/part{part[1]}' if part else '')
    seen = set()
    for pc, (k, r) in outs:
        if k != 'ok':
            m = sub.prove(f'{tag}/no-panic', pc, z3.BoolVal(True), extra=assume)
            report(sub, m, conn, upg, ver, p, asc, f'handshake panicked: {r}'); continue
        def then(pc2, spec, r=r):
            # once this worker has replayed violations the verdict is settled: the remaining obligations of the case are not discharged one by one
            if sub.violations and REPORTED['n'] >= 4: return
            want_ok = spec
            if r[0] == 'err':
                good = (not want_ok) and isinstance(r[1], int) and 400 <= r[1] <= 499
                m = sub.prove(f'{tag}/refused-only-if-handshake-incomplete-and-4xx', pc2, z3.BoolVal(not good), extra=assume)
                report(sub, m, conn, upg, ver, p, asc, f'handshake refused ({r[1]}) although every element is present' if want_ok else f'refusal is not a 4xx: {r[1]}')
                return
            _, up, resp, nspawn = r
            good = want_ok
            m = sub.prove(f'{tag}/upgraded-only-if-handshake-complete', pc2, z3.BoolVal(not good), extra=assume)
            report(sub, m, conn, upg, ver, p, asc, 'request upgraded although a handshake element is missing')
            # 101 + headers + accept digest
            ok101 = resp.discr == 0
            if ok101:
                rr = ex.payload(resp)
                hs = {n: v.content for n, v in rr.headers.entries}
                acc = dv(hs.get('sec-websocket-accept'))
                ok101 = isinstance(rr, Response) and rr.status == 101 and dv(hs.get('connection')) == 'Upgrade' and dv(hs.get('upgrade')) == 'websocket' \
                    and len(rr.headers.entries) == 3 and isinstance(acc, Opaque) and acc.tag == 'b64' and acc.payload[0] == 'STANDARD' \
                    and isinstance(acc.payload[1], Opaque) and acc.payload[1].tag == 'sha1' and len(acc.payload[1].payload) == 2 \
                    and acc.payload[1].payload[0] is key and bytes(sb_bytes(acc.payload[1].payload[1])) == GUID and nspawn == 1
            m = sub.prove(f'{tag}/101-with-rfc6455-accept-digest', pc2, z3.BoolVal(not ok101), extra=assume)
            report(sub, m, conn, upg, ver, p, asc, f'101 response / accept digest wrong: {resp}', key=key)
        def spec(d):
            if not d(p['connection']) or not d(asc['connection']) or not list_has_token(conn, 'upgrade', d): return False
            if not d(p['upgrade']) or not d(asc['upgrade']) or not list_has_token(upg, 'websocket', d): return False
            if not d(p['version']) or not d(z3.And(b8(ver[0]) == c8('1'), b8(ver[1]) == c8('3'))): return False
            return bool(d(p['key']))
        seen.add(r[0])
        refeval.under(list(pc) + assume, spec, then, Inconclusive, max_depth=40)
    return seen


def concrete(m, bs):
    return bytes(m.eval(b8(b), model_completion=True).as_long() for b in bs)


REPORTED = {'n': 0}


def report(sub, m, conn, upg, ver, p, asc, what, key=None):
    if m is None: return
    # a handful of replayed violations per worker decide the verdict; further models of the same run are not replayed one by one
    if REPORTED['n'] >= 4 and sub.violations: return
    REPORTED['n'] += 1
    ev = lambda t: bool(m.eval(t, model_completion=True))
    hdr = {}
    for k, bs in (('connection', conn), ('upgrade', upg)):
        hdr[k] = None if not ev(p[k]) else ('non-ascii' if not ev(asc[k]) else concrete(m, bs).decode('latin1'))
    hdr['version'] = concrete(m, ver).decode('latin1') if ev(p['version']) else None
    hdr['key'] = 'dGhlIHNhbXBsZSBub25jZQ==' if ev(p['key']) else None
    if key is not None and ev(p['key']):
        kb = concrete(m, key.bs)
        if all(b in (9,) or 0x20 <= b <= 0x7e or b >= 0x80 for b in kb) and kb.strip(b' \t') == kb and kb:
            hdr['key_bytes'] = list(kb); hdr['key'] = kb.decode('latin1')
    extra = []
    if ev(z3.Bool('present_content_length')): extra.append(['Content-Length', '0'])
    if ev(z3.Bool('present_unrelated')): extra.append(['X-Unrelated', 'v'])
    if extra: hdr['extra'] = extra
    case = {'op': 'ws_handshake', 'headers': hdr}
    nat = replay([case])[0]
    want = spec_concrete(hdr)
    bad = (nat.get('status') == 101) != want or (want and not nat.get('accept_ok')) or (not want and not (400 <= nat.get('status', 0) <= 499))
    sub.counterexample(f'{what}: headers {hdr} -> native {nat}; statement says {"101" if want else "4xx"}', case, bad, role='handshake')


def spec_concrete(hdr):
    import re
    def has(v, t):
        return v is not None and v != 'non-ascii' and any(e.lower() == t for e in re.split(r'[, \t]', v))
    return has(hdr['connection'], 'upgrade') and has(hdr['upgrade'], 'websocket') and hdr['version'] == '13' and hdr['key'] is not None


def _worker(task):
    chk, ex = G['chk'], G['ex']
    sub = chk.fork()
    t0 = time.time()
    try:
        seen = run_case(sub, ex, task[0], task[1], task[2] if len(task) > 2 else None)
        sub.samples.append({'connection_bytes': task[0], 'upgrade_bytes': task[1], 'paths': sub.paths, 'outcomes': sorted(seen)})
    except Inconclusive as e:
        return {'inconclusive': f'{task}: {e}'}
    except Unsupported as e:
        return {'inconclusive': f'{task}: unsupported: {e}'}
    except Exception as e:
        return {'inconclusive': f'{task}: internal error {e!r} {traceback.format_exc()[-1500:]}'}
    out = sub.summary(); out['task_s'] = time.time() - t0
    return out


def witnesses(chk):
    K = 'dGhlIHNhbXBsZSBub25jZQ=='
    cases = []
    for conn, upg, ver, key in [('Upgrade', 'websocket', '13', K), ('keep-alive, Upgrade', 'websocket', '13', K), ('keep-alive,\tUpgrade', 'WebSocket', '13', K),
                                ('upgrade', 'h2c, websocket', '13', K), ('keep-alive', 'websocket', '13', K), ('Upgrade', 'h2c', '13', K),
                                ('Upgrade', 'websocket', '12', K), ('Upgrade', 'websocket', '14', K), ('Upgrade', 'websocket', None, K),
                                ('Upgrade', 'websocket', '13', None), (None, 'websocket', '13', K), ('Upgrade', None, '13', K), ('upgradex', 'websocket', '13', K)]:
        cases.append({'op': 'ws_handshake', 'headers': {'connection': conn, 'upgrade': upg, 'version': ver, 'key': key}})
    # keys are opaque octets: not base64, not UTF-8, a single octet
    for kb in ([0xff, 0xfe, 0x41], [0xe9], list(b'not base64 at all!'), [0xc3, 0x28]):
        cases.append({'op': 'ws_handshake', 'headers': {'connection': 'Upgrade', 'upgrade': 'websocket', 'version': '13', 'key': 'octets', 'key_bytes': kb}})
    # after the upgrade: bytes arriving in several TCP segments reach a handler that uses read_exact, and its vectored reply comes back intact
    for segs in ([12], [3, 5, 4], [6, 6], [1] * 12, 'hidden'):
        # 'hidden': the API's only channel is an unpublished one - it is still a channel endpoint and gets the connection
        c_ = {'op': 'ws_stream', 'segments': [5, 7], 'hidden': True} if segs == 'hidden' else {'op': 'ws_stream', 'segments': segs}
        r_ = replay([c_])[0]
        chk.replayed += 1
        if not r_.get('as_specified'): chk.counterexample(f'bytes after the upgrade sent in segments {segs}: {r_}', c_, True, role='raw-stream:wire')
    res = replay(cases)
    for c, r in zip(cases, res):
        chk.replayed += 1
        want = spec_concrete(c['headers'])
        good = (r.get('status') == 101) == want and (not want or r.get('accept_ok')) and (want or 400 <= r.get('status', 0) <= 499)
        if not good: chk.counterexample(f'handshake {c["headers"]}: native {r}', c, True, role='handshake')
        if len(chk.samples) < 6: chk.samples.append({'case': c['headers'], 'native': r})


def raw_stream_delegation(chk, ex):
    """WebsocketConnectionRaw (what `WebsocketConnection::into_inner` hands to the channel handler) is a plain wrapper of the upgraded
    connection: every AsyncRead / AsyncWrite method must call the same method of the inner stream exactly once with the caller's own
    arguments (the very buffer / slices) and return its result unchanged - then bytes flow unmodified whatever hyper and tokio do inside.
    The inner methods are recording stubs returning an unconstrained result."""
    f = ex.fns
    methods = {'poll_read': 3, 'poll_write': 3, 'poll_write_vectored': 3, 'poll_flush': 2, 'poll_shutdown': 2, 'is_write_vectored': 1}
    calls = []
    def m_inner(ex, a, c):
        name = re.search(r'::(\w+)$', c).group(1)
        res = Opaque('inner-result', (name, len(calls)))
        calls.append((name, [dv(x) for x in a], res))
        return res
    local = [(r'^<TokioIo<Upgraded> as (tokio::io::)?Async(Read|Write)>::(poll_read|poll_write|poll_write_vectored|poll_flush|poll_shutdown|is_write_vectored)$', m_inner),
             (r'^TokioIo::<Upgraded>::is_write_vectored$', m_inner),
             (r'<Pin<&mut WebsocketConnectionRaw> as DerefMut>::deref_mut$|<Pin<&mut WebsocketConnectionRaw> as Deref>::deref$', lambda ex, a, c: dv(a[0]).fields[None][0].v if isinstance(dv(a[0]), Adt) else a[0])]
    saved = ex.models
    ex.models = local + ex.models
    try:
        for name, nargs in methods.items():
            c = [n for n in f if re.search(r'^websocket::<impl at [^>]*>::' + name + '$', n) and 'WebsocketConnectionRaw' in f[n].locals.get('_1', '')]
            if len(c) != 1: raise Inconclusive(f'cannot locate WebsocketConnectionRaw::{name}: {c}')
            inner = Opaque('upgraded-connection')
            raw = Adt('WebsocketConnectionRaw', 0, {None: [Cell(inner)]})
            cx, buf = Opaque('task-context'), Opaque('callers-buffer')
            def h(ex):
                del calls[:]
                recv = Adt('Pin', 0, {None: [Cell(Ref(Cell(raw)))]}) if name != 'is_write_vectored' else Ref(Cell(raw))
                args = [recv] + ([Ref(Cell(cx))] if nargs >= 2 else []) + ([Ref(Cell(buf))] if nargs >= 3 else [])
                r = ex.call_fn(c[0], args)
                return r, list(calls)
            try:
                outs = ex.explore(h, [])
            except Unsupported as e:
                # the wrapper does something to the caller's buffers that a plain delegation would not: ask the real code
                ex.unsupported_paths.append(f'raw-stream/{name}: {e}')
                case = {'op': 'ws_stream', 'segments': [3, 5, 4]}
                nats = replay([case, {'op': 'ws_stream', 'segments': [6, 6]}, {'op': 'ws_stream', 'segments': [1, 1, 1, 1, 1, 1, 1, 1, 1, 1, 1, 1]}])
                if not all(n_.get('as_specified') for n_ in nats):
                    chk.counterexample(f'WebsocketConnectionRaw::{name} is not a plain delegation ({e}); a channel handler using read_exact / write_vectored over '
                                       f'segmented traffic -> {[str(n_)[:160] for n_ in nats]}', case, True, role='raw-stream:' + name)
                continue
            chk.paths += len(outs)
            if not outs: raise Inconclusive(f'vacuity: WebsocketConnectionRaw::{name} has no path; {ex.unsupported_paths[-2:]}')
            for pc, (k, rr) in outs:
                if k != 'ok':
                    m = chk.prove(f'raw-stream/{name}/no-panic', pc, z3.BoolVal(True))
                    if m is not None: chk.mismatches.append(f'WebsocketConnectionRaw::{name} panics: {rr}')
                    continue
                r, cs = rr
                good = len(cs) == 1 and cs[0][0] == name and dv(r) is cs[0][2]
                if good:
                    got = cs[0][1]
                    def is_inner(x):
                        for _ in range(4):
                            if isinstance(x, Adt) and x.ty == 'Pin': x = dv(x.fields[None][0].v)
                            elif isinstance(x, Ref): x = dv(x.cell.v)
                            else: break
                        return x is inner
                    good = is_inner(got[0]) and (nargs < 2 or got[1] is cx) and (nargs < 3 or got[2] is buf)
                m = chk.prove(f'raw-stream/{name}/delegates-once-with-the-callers-arguments-and-returns-the-result', pc, z3.BoolVal(not good))
                if m is not None:
                    case = {'op': 'ws_stream', 'segments': [3, 5, 4]}
                    nat = replay([case])[0]
                    chk.counterexample(f'WebsocketConnectionRaw::{name} is not a plain delegation: inner calls {[(n_, [str(x)[:40] for x in a_]) for n_, a_, _ in cs]}, returned {r}; '
                                       f'a channel handler using read_exact / write_vectored over segmented traffic -> {nat}', case, not nat.get('as_specified', False), role='raw-stream:' + name)
    finally:
        ex.models = saved


def run(tier, replay_file=None):
    chk = Check('C20', tier)
    ex = chk.load(MODELS + strmodel.MODELS + AM.MODELS + httpmodel.MODELS + BASE_MODELS, loop_bound=200)
    ex.const_models.append(httpmodel.const_model)
    f = ex.fns
    G.update(chk=chk, ex=ex, F_from=mir.find(f, r'websocket::<impl at [^>]*>::from_request$'), F_handle=mir.find(f, r'websocket::<impl at [^>]*>::handle$'))
    # the separator predicates `|c| c == ',' || c == ' ' ...` are pure: merge their internal paths
    for n in f:
        if 'websocket::' in n and 'from_request::{closure#0}::{closure#' in n and f[n].ret == 'bool' and 'char' in ' '.join(f[n].locals.get(a, '') for a in f[n].args):
            ex.summarize.add(n)
    replay_bin()
    N = 10 if tier == 'quick' else 13
    NU = N + 1
    tasks = []
    for c, u in [(None, n) for n in range(NU, -1, -1)] + [(n, None) for n in range(N, -1, -1)] + [(3, 3)]:
        n = u if c is None else c
        k = 0 if (c is not None and u is not None) or n < 6 else min(n - 4, 6)
        tasks += [(c, u, (k, bits)) for bits in range(1 << k)] if k else [(c, u)]
    tasks.sort(key=lambda t: -((t[0] or 0) + (t[1] or 0)))
    chk.bounds = {'connection_value': f'every length 0..{N} over HTAB, SP and visible ASCII (Upgrade fixed to "websocket")',
                  'upgrade_value': f'every length 0..{N + 1} (Connection fixed to "keep-alive, Upgrade")', 'both': '3 + 3 bytes',
                  'version': '2 symbolic bytes', 'presence': 'each of the four headers present/absent; Connection/Upgrade ASCII or not', 'key': 'opaque bytes'}
    chk.assumptions = ['a header list "carries" a token when splitting on commas, SP and HTAB yields it (case-insensitively); for well-formed lists this '
                       'is the RFC 9110 list syntax',
                       'sha1 digest = uninterpreted function of the concatenated update arguments; base64 engine identified by its constant',
                       'tokio::spawn records the task; the upgraded byte stream (hyper/tokio I/O) is outside this check']
    t_w = time.time()
    raw_stream_delegation(chk, ex)
    witnesses(chk)
    chk.extra['phase_s'] = {'load': round(t_w - chk.t0, 1), 'witnesses': round(time.time() - t_w, 1)}
    incon = []
    slow = []
    with mp.get_context('fork').Pool(int(os.environ.get('VERIF_JOBS', '16'))) as pool:
        for res in pool.imap_unordered(_worker, tasks, chunksize=1):
            if 'inconclusive' in res: incon.append(res['inconclusive']); continue
            slow.append(round(res['task_s'], 1))
            chk.absorb(res)
    chk.extra['phase_s']['slowest_tasks'] = sorted(slow)[-5:]
    if os.environ.get('VERIF_DEBUG'): print(chk.extra['phase_s'])
    if incon:
        rc = chk.finish('inconclusive run')
        if rc == 1:
            print(f'note: {len(incon)} task(s) inconclusive as well; first: {incon[0][:300]}')
            return 1
        raise Inconclusive(f'{len(incon)} task(s) inconclusive; first: {incon[0]}')
    return chk.finish('one obligation per (header value length, execution path across the extractor and handle(), reference case)')

"""C14 — Page tokens round-trip, malformed tokens are refused, limits are clamped."""
import re

import z3

from mirsym import mir
from mirsym.core import (Adt, Cell, Opaque, Panic, PMap, PVec, PyClosure, Ref, SymStr, Tup, Unsupported, dv, is_sym, StrSort,
                         zand, zor, znot, zbool)
from mirsym.models import BASE_MODELS
from mirsym.runner import Check, Inconclusive, replay
from props import httpmodel
from props.c13 import occurs

BV64 = lambda n: z3.BitVec(n, 64)


class JsonBytes:
    """serde_json::to_vec(value): uninterpreted bytes that remember the value; symbolic length"""
    def __init__(self, value, length): self.value, self.len = value, length
    def __repr__(self): return f'JsonBytes({self.value!r})'


class B64Text:
    """Engine::encode(bytes) for one engine constant"""
    def __init__(self, engine, payload, length): self.engine, self.payload, self.len = engine, payload, length
    def __repr__(self): return f'B64[{self.engine}]({self.payload!r})'


class TokenIn:
    """an arbitrary client-supplied token string: symbolic length, symbolic decodability / parse outcome"""
    def __init__(self, name):
        self.len = BV64(name + '_len')
        self.decodes = z3.Bool(f'{name}_decodes')
        # the decoded bytes: do they start with a well-formed token document, and does anything follow it?
        self.prefix_parses, self.trailing = z3.Bools(f'{name}_starts_with_a_token_document {name}_has_trailing_data')
        self.parses = z3.And(self.prefix_parses, z3.Not(self.trailing))
        self.outer_ws = None       # set when the code trims the token: (has surrounding whitespace, the trimmed TokenIn)
        self.selector = Opaque('selector-from-' + name)
        self.name = name
        self.declen = BV64(name + '_decoded_len')      # 3 bytes per 4 characters, minus padding

    def wf(self):
        q = z3.UDiv(self.len, z3.BitVecVal(4, 64)) * 3
        # zero decoded bytes are not a JSON document
        return [z3.ULT(self.len, 1 << 40), z3.ULE(self.declen, q), z3.UGE(self.declen + 2, q), z3.Implies(self.declen == 0, z3.Not(self.parses))]


def engine_name(e):
    e = dv(e)
    if isinstance(e, Opaque) and e.tag == 'const': return e.payload.split('::')[-1]
    raise Unsupported(f'base64 engine {e!r}')


class Env:
    issue_engine = None      # name of the base64 engine constant serialize_page_token encodes with
    json_len = None          # symbolic length of the JSON rendering in this harness
    to_vec_fails = None


def m_to_vec(ex, args, callee):
    if Env.to_vec_fails is not None and ex.truth(Env.to_vec_fails): return ex.err(Opaque('serde_json::Error'))
    return ex.ok(JsonBytes(dv(args[0]), Env.json_len))


def b64_len(n):
    """padded base64: 4 * ceil(n / 3)"""
    return z3.UDiv(n + 2, z3.BitVecVal(3, 64)) * 4


def m_encode(ex, args, callee):
    payload = dv(args[1])
    if not isinstance(payload, JsonBytes): raise Unsupported(f'encode of {payload!r}')
    Env.issue_engine = engine_name(args[0])
    return B64Text(engine_name(args[0]), payload, b64_len(payload.len))


def m_decode(ex, args, callee):
    eng, t = engine_name(args[0]), dv(args[1])
    if isinstance(t, B64Text):
        if t.engine == eng: return ex.ok(t.payload)            # decode_E(encode_E(x)) = Ok(x)
        # a different alphabet: may fail, or yield bytes that are not the original
        if ex.truth(z3.FreshConst(z3.BoolSort(), 'cross_engine_decodes')): return ex.ok(Opaque('garbled-bytes'))
        return ex.err(Opaque('DecodeError'))
    if isinstance(t, TokenIn):
        if ex.truth(t.decodes): return ex.ok(Opaque('decoded', t))
        return ex.err(Opaque('DecodeError'))
    raise Unsupported(f'decode of {t!r}')


WIDE = z3.Bool('selector_has_a_128bit_integer_outside_the_64bit_range')


def m_from_slice(ex, args, callee):
    b = dv(args[0])
    if isinstance(b, JsonBytes):
        if re.search(r'SerializedToken<(serde_json::)?Value>', callee):
            # parsed into the untyped serde_json::Value tree first: the selector is only a description of the JSON text
            tokv = b.value
            return ex.ok(ex.mk_struct('SerializedToken', v=ex.field(tokv, 'v').v, page_start=Opaque('json-value-of', ex.field(tokv, 'page_start').v)))
        return ex.ok(b.value)              # parse(json(v)) = Ok(v)
    if isinstance(b, Opaque) and b.tag == 'decoded':
        t = b.payload
        if ex.truth(t.parses):
            return ex.ok(ex.mk_struct('SerializedToken', v=ex.mk_enum('PaginationVersion', 'V1'), page_start=t.selector))
        return ex.err(Opaque('serde_json::Error'))
    if isinstance(b, Opaque) and b.tag == 'garbled-bytes':
        if ex.truth(z3.FreshConst(z3.BoolSort(), 'garbled_parses')):
            return ex.ok(ex.mk_struct('SerializedToken', v=ex.mk_enum('PaginationVersion', 'V1'), page_start=Opaque('garbled-selector')))
        return ex.err(Opaque('serde_json::Error'))
    raise Unsupported(f'from_slice of {b!r}')


def m_json_de_from_slice(ex, args, callee):
    return Opaque('json-de', dv(args[0]))


def m_path_to_error_deserialize(ex, args, callee):
    """a hand-driven serde_json::Deserializer reads ONE value and stops: what follows it is only looked at by Deserializer::end()"""
    de = dv(args[0])
    b = de.payload if isinstance(de, Opaque) and de.tag == 'json-de' else None
    if isinstance(b, JsonBytes): return ex.ok(b.value)
    if isinstance(b, Opaque) and b.tag == 'decoded':
        t = b.payload
        if ex.truth(t.prefix_parses):
            return ex.ok(ex.mk_struct('SerializedToken', v=ex.mk_enum('PaginationVersion', 'V1'), page_start=t.selector))
        return ex.err(Opaque('serde_path_to_error::Error'))
    raise Unsupported(f'serde_path_to_error::deserialize of {de!r}')


def m_json_de_end(ex, args, callee):
    de = dv(args[0])
    b = de.payload if isinstance(de, Opaque) and de.tag == 'json-de' else None
    if isinstance(b, JsonBytes): return ex.ok(Tup([]))
    if isinstance(b, Opaque) and b.tag == 'decoded':
        return ex.err(Opaque('serde_json::Error')) if ex.truth(b.payload.trailing) else ex.ok(Tup([]))
    raise Unsupported(f'Deserializer::end of {de!r}')


def m_token_index(ex, args, callee):
    """byte-slicing the client's token text: panics unless the offsets are within the text and on character boundaries (the text is
    arbitrary UTF-8 the client chose)"""
    t = dv(args[0])
    if not isinstance(t, TokenIn):
        from mirsym.models import m_str_index
        return m_str_index(ex, args, callee)
    if not ex.truth(z3.Bool(t.name + '_slice_offsets_are_char_boundaries')): raise Panic('byte index is not a char boundary')
    return SymStr(z3.FreshConst(StrSort, 'token_slice'))


def m_token_trim(ex, args, callee):
    """trim of a client token: unchanged without surrounding whitespace; with it, the text as sent is not base64 (whitespace is outside
    every alphabet) while what remains may well be a good token"""
    t = dv(args[0])
    if not isinstance(t, TokenIn):
        from mirsym.models import m_str_trim_opaque
        return m_str_trim_opaque(ex, args, callee.split('::')[-1])
    if t.outer_ws is None: t.outer_ws = (z3.Bool(t.name + '_has_outer_whitespace'), TokenIn(t.name + '_trimmed'))
    ws, inner = t.outer_ws
    ex.assume(z3.Implies(ws, z3.Not(t.decodes)))
    for c in inner.wf(): ex.assume(c)
    return inner if ex.truth(ws) else t


def m_from_value(ex, args, callee):
    """serde_json::from_value(to_value-like tree of x) = Ok(x) unless x holds a number serde_json::Value cannot represent exactly:
    without the arbitrary_precision feature (not enabled in this workspace) that is a 128-bit integer outside the 64-bit range"""
    v = dv(args[0])
    if isinstance(v, Opaque) and v.tag == 'json-value-of':
        if ex.truth(WIDE): return ex.err(Opaque('serde_json::Error'))
        return ex.ok(v.payload)
    raise Unsupported(f'from_value of {v!r}')


def m_len(ex, args, callee):
    t = dv(args[0])
    if isinstance(t, (B64Text, TokenIn, JsonBytes)): return t.len
    if isinstance(t, Opaque) and t.tag == 'decoded': return t.payload.declen
    if isinstance(t, str): return len(t.encode())
    raise Unsupported(f'len of {t!r}')


MODELS = [
    (r'^(serde_json::)?to_vec::', m_to_vec),
    (r'<GeneralPurpose as Engine>::encode::', m_encode),
    (r'<GeneralPurpose as Engine>::decode::', m_decode),
    (r'^(serde_json::)?from_slice::', m_from_slice),
    (r'^(serde_json::)?from_value::', m_from_value),
    (r'Deserializer::<.*>::from_slice$', m_json_de_from_slice), (r'^serde_path_to_error::deserialize::<', m_path_to_error_deserialize),
    (r'Deserializer::<.*>::end$', m_json_de_end),
    (r'^<(str|String) as (std::ops::)?Index<(std::ops::)?Range(To|From)?<usize>>>::index$|str>::index::<|traits::<impl (std::ops::)?Index<.*> for str>::index', lambda ex, a, c: m_token_index(ex, a, c)), (r'<impl str>::trim$|<impl str>::trim_end$|<impl str>::trim_start$', m_token_trim),
    (r'^String::len$|<impl str>::len$|Vec::<u8>::len$', m_len),
    (r'^String::is_empty$|<impl str>::is_empty$|Vec::<u8>::is_empty$', lambda ex, a, c: m_len(ex, a, c) == 0),
    (r'<impl str>::as_bytes$|String::as_bytes$|<Vec<u8> as Deref>::deref$|String as Deref>::deref$', lambda ex, a, c: dv(a[0])),
    (r'<D as Deserializer<.*>>::|<D::Error as serde::de::Error>::custom::|as serde::de::Error>::custom::', None),
]


def setup(pid, tier):
    chk = Check(pid, tier)
    models = [m for m in MODELS if m[1] is not None]
    ex = chk.load(models + httpmodel.MODELS + BASE_MODELS)
    ex.const_models.append(httpmodel.const_model)
    f = ex.fns
    F_ser = mir.find(f, r'(^|::)serialize_page_token$')
    F_de = mir.find(f, r'(^|::)deserialize_page_token$')
    F_which = mir.find(f, r'(^|::)deserialize_whichpage$')
    F_new = [n for n in mir.find(f, r'pagination::<impl at [^>]*>::new$', unique=False) if 'ResultsPage' in (f[n].ret or '')][0]
    F_limit = mir.find(f, r'handler::<impl at [^>]*>::page_limit$')
    MAXLEN = 512
    src_max = [v for (stem, nm), v in ex.L.consts.items() if nm == 'MAX_TOKEN_LENGTH']
    chk.bounds = {'selector': 'opaque value of any type; JSON length a symbolic 64-bit value', 'token_in': 'length symbolic, decodability and parse outcome symbolic',
                  'limits': 'client limit, server max, server default: symbolic non-zero 32-bit values', 'items_per_page': '0..3'}
    chk.assumptions = ['serde_json: parse(json(v)) = Ok(v) for the selector type; to_vec may fail', 'base64: decode_E(encode_E(x)) = Ok(x); a padded engine '
                       'produces 4*ceil(n/3) characters; decoding text produced by a different engine may fail or garble',
                       'rejection of limit=0 / negative / non-numeric limits is serde_urlencoded + NonZeroU32 (third-party), checked only on the wire',
                       f'MAX_TOKEN_LENGTH read from the source: {src_max}']
    n = BV64('json_len')
    sel = Opaque('selector')
    fails = z3.Bool('to_vec_fails')
    base = [z3.ULT(n, 1 << 40)]
    return dict(chk=chk, ex=ex, F_ser=F_ser, F_de=F_de, F_which=F_which, F_new=F_new, F_limit=F_limit, MAXLEN=MAXLEN, n=n, sel=sel, fails=fails, base=base)


def run(tier, replay_file=None):
    C = setup('C14', tier)
    chk = C['chk']
    part_tokens(C)
    part_transport(C)
    part_tokens_in(C)
    part_whichpage(C)
    part_results_page(C)
    part_page_limit(C)
    witnesses(chk)
    return chk.finish('one obligation per (function, input shape, execution path, clause)')


def unpack(C):
    return (C[k] for k in ('chk', 'ex', 'F_ser', 'F_de', 'F_which', 'F_new', 'F_limit', 'MAXLEN', 'n', 'sel', 'fails', 'base'))


def part_tokens(C):
    chk, ex, F_ser, F_de, F_which, F_new, F_limit, MAXLEN, n, sel, fails, base = unpack(C)
    # ---- (a)+(b) issue, then accept back
    def h(ex):
        Env.json_len, Env.to_vec_fails = n, fails
        r = ex.call_fn(F_ser, [sel])
        if r.discr == 1: return ('ser-err', httpmodel.status_of(ex, ex.payload(r)))
        tok = ex.payload(r)
        back = ex.call_fn(F_de, [tok])
        return ('ser-ok', tok, back)
    outs = ex.explore(h, base)
    chk.paths += len(outs)
    n_ok = 0
    for pc, (k, r) in outs:
        if k != 'ok':
            m = chk.prove('token/no-panic', pc, z3.BoolVal(True), extra=base)
            report_token(chk, m, n, f'token issue/accept panicked: {r}'); continue
        if r[0] == 'ser-err':
            st = r[1]
            m = chk.prove('token/issue-fails-only-when-too-long-and-5xx', pc,
                          z3.Or(z3.BoolVal(not (isinstance(st, int) and 500 <= st <= 599)), z3.And(z3.Not(fails), z3.ULE(b64_len(n), MAXLEN))), extra=base)
            report_token(chk, m, n, f'token issue failed ({st}) for a selector whose token fits')
            continue
        n_ok += 1
        _, tok, back = r
        good_tok = isinstance(tok, B64Text) and isinstance(tok.payload, JsonBytes) and isinstance(tok.payload.value, Adt) \
            and tok.payload.value.ty == 'SerializedToken' and ex.field(tok.payload.value, 'page_start').v is sel \
            and ex.variant_name(ex.field(tok.payload.value, 'v').v) == 'V1'
        m = chk.prove('token/issued-token-encodes-version-and-selector', pc, z3.BoolVal(not good_tok), extra=base)
        report_token(chk, m, n, f'issued token does not carry the version tag and the selector: {tok}')
        if good_tok:
            m = chk.prove('token/issued-token-within-bound', pc, z3.UGT(tok.len, MAXLEN), extra=base)
            report_token(chk, m, n, 'issued token longer than the bound')
        rt = back.discr == 0 and ex.payload(back) is sel
        m = chk.prove('token/roundtrip', pc, z3.BoolVal(not rt), extra=base, prefer=[z3.ULE(n, 384)])
        report_token(chk, m, n, f'an issued token is not accepted back as the same selector (got {back})')
    if not n_ok: raise Inconclusive('vacuity: no successful token issue')



def engine_alphabet(name):
    """the 64 characters of the alphabet behind a base64 engine constant, read from the sources (dropshot's own constant or the base64 crate's)"""
    import glob, os, re
    from mirsym.runner import REPO
    ver = re.search(r'name = "base64"\nversion = "([^"]+)"', open(os.path.join(REPO, 'Cargo.lock')).read()).group(1)
    crate = glob.glob(os.path.expanduser(f'~/.cargo/registry/src/*/base64-{ver}/src'))[0]
    alpha = None
    for path in glob.glob(os.path.join(REPO, 'dropshot/src/**/*.rs'), recursive=True) + [os.path.join(crate, 'engine/general_purpose/mod.rs')]:
        m = re.search(r'const\s+' + re.escape(name) + r'\s*:\s*[\w:]*GeneralPurpose\s*=\s*[\w:]*GeneralPurpose::new\(\s*&\s*([\w:]+)', open(path).read())
        if m: alpha = m.group(1).split('::')[-1]; break
    if alpha is None: raise Inconclusive(f'cannot resolve the alphabet of base64 engine {name}')
    m = re.search(r'pub const ' + alpha + r': Alphabet = Alphabet::from_str_unchecked\(\s*"([^"]{64})"', open(os.path.join(crate, 'alphabet.rs')).read())
    if not m: raise Inconclusive(f'cannot read base64 alphabet {alpha}')
    return alpha, m.group(1)


def part_transport(C):
    """an issued token is pasted into a query string as it is (dropshot's documentation, examples and tests do): every character the
    encoder can emit must come back unchanged from query-string decoding (form_urlencoded: `+` -> space, `%xx` -> byte, `&` `#` delimit)"""
    chk = C['chk']
    if Env.issue_engine is None: raise Inconclusive('token transport: no token was issued')
    alpha, chars = engine_alphabet(Env.issue_engine)
    i = z3.BitVec('sextet', 6)
    out = z3.BitVecVal(ord(chars[63]), 8)
    for k in range(62, -1, -1): out = z3.If(i == k, z3.BitVecVal(ord(chars[k]), 8), out)
    m = chk.prove(f'transport/every-token-character-survives-the-query-string', [], z3.Or([out == ord(c) for c in '+%&# ']))
    chk.notes.append(f'page tokens are issued with base64 engine {Env.issue_engine} (alphabet {alpha})')
    if m is None: return
    bad = chr(m.eval(out, model_completion=True).as_long())
    # a selector whose token contains that character
    import base64, itertools, json as J
    std = 'ABCDEFGHIJKLMNOPQRSTUVWXYZabcdefghijklmnopqrstuvwxyz0123456789+/'
    names = []
    for name in (''.join(t) for n_ in (1, 2, 3, 4) for t in itertools.product('a~>?z', repeat=n_)):
        tok = base64.b64encode(J.dumps({'v': 'v1', 'page_start': {'name': name}}, separators=(',', ':')).encode()).decode().translate(str.maketrans(std, chars))
        if bad in tok.rstrip('='): names.append(name)
        if len(names) >= 3: break
    case = {'op': 'token_transport', 'names': ['first'] + names + ['last'], 'limit': 1}
    nat = replay([case])[0]
    chk.counterexample(f'tokens are encoded with {Env.issue_engine} ({alpha} alphabet) which can emit {bad!r}; following the tokens of a collection named '
                       f'{case["names"]} with page size 1 -> {str(nat)[:400]}', case, not nat.get('as_specified', False), role='transport')


def long_token_transport(chk):
    """tokens near the maximum length, followed on a live server with the token pasted into the query (next to a limit parameter)"""
    for n in (300, 335, 343):
        names = [chr(ord('a') + i) * n for i in range(4)]
        c = {'op': 'token_transport', 'names': names, 'limit': 1}
        r = replay([c])[0]
        chk.replayed += 1
        if not r.get('as_specified'):
            chk.counterexample(f'following tokens of {len((r.get("tokens") or [""])[0])} characters (selectors of {n} bytes, within the documented bound): {str(r)[:300]}', c, True, role='transport:long')


def part_tokens_in(C):
    chk, ex, F_ser, F_de, F_which, F_new, F_limit, MAXLEN, n, sel, fails, base = unpack(C)
    # ---- (c) arbitrary incoming tokens
    t = TokenIn('tok')
    outs = ex.explore(lambda ex: ex.call_fn(F_de, [t]), t.wf())
    chk.paths += len(outs)
    for pc, (k, r) in outs:
        if k != 'ok':
            m = chk.prove('token-in/no-panic', pc, z3.BoolVal(True))
            if m is not None: report_token_panic(chk, f'deserialize_page_token panicked: {r}')
            continue
        wellformed = z3.And(z3.ULE(t.len, MAXLEN), t.decodes, t.parses)
        if r.discr == 0:
            m = chk.prove('token-in/accepted-only-if-wellformed', pc, z3.Not(wellformed), extra=t.wf(), prefer=[z3.ULE(t.len, 700), z3.URem(t.len, 4) == 0, t.decodes, t.parses])
            report_token_in(chk, m, t, 'malformed or over-long token accepted')
            m = chk.prove('token-in/yields-its-selector', pc, z3.BoolVal(ex.payload(r) is not t.selector))
            report_token_in(chk, m, t, 'accepted token yields a different selector')
        else:
            m = chk.prove('token-in/refused-only-if-malformed', pc, wellformed, extra=t.wf(), prefer=[z3.ULE(t.len, 700), z3.URem(t.len, 4) == 0, z3.UGE(t.len, 48)])
            report_token_in(chk, m, t, 'well-formed token refused')



def part_whichpage(C):
    chk, ex, F_ser, F_de, F_which, F_new, F_limit, MAXLEN, n, sel, fails, base = unpack(C)
    # ---- (d) page_token alone determines the page
    other = SymStr(z3.Const('other_param', StrSort))
    for shape in ('token', 'token+other', 'other', 'empty'):
        tk = TokenIn('tok2')
        raw = PMap()
        if 'token' in shape: raw.put('page_token', tk)
        if 'other' in shape: raw.put('sortBy', other)          # scan parameter names are the consumer's (any case)
        fm_ok = z3.Bool('from_map_ok')
        de = Opaque('deserializer', raw)
        local = [(r'^<BTreeMap<.*> as [\w:]*Deserialize<.*>>::deserialize::<\w+>$', lambda ex, a, c: ex.ok(a[0].payload)),
                 (r'^from_map::|from_map::from_map::', lambda ex, a, c: ex.ok(Opaque('scan-params', dv(a[0]))) if ex.truth(fm_ok) else ex.err('bad params'), True),
                 (r'Error>::custom::<[\w:]+>$', lambda ex, a, c: Opaque('de-error', a[0]))]
        ex.models = local + ex.models
        try:
            outs = ex.explore(lambda ex: ex.call_fn(F_which, [de]), [])
        finally:
            ex.models = ex.models[len(local):]
        chk.paths += len(outs)
        for pc, (k, r) in outs:
            if k != 'ok':
                m = chk.prove(f'whichpage/{shape}/no-panic', pc, z3.BoolVal(True))
                if m is not None: report_token_panic(chk, f'deserialize_whichpage panicked on {shape}: {r}')
                continue
            wf = z3.And(z3.ULE(tk.len, MAXLEN), tk.decodes, tk.parses)
            if 'token' in shape:
                if r.discr == 0:
                    wp = ex.payload(r)
                    good = ex.variant_name(wp) == 'Next' and ex.payload(wp) is tk.selector and not occurs(wp, other.term)
                    m = chk.prove(f'whichpage/{shape}/token-alone-determines-page', pc, z3.Or(z3.BoolVal(not good), z3.Not(wf)), extra=tk.wf())
                else:
                    m = chk.prove(f'whichpage/{shape}/error-only-for-bad-token', pc, wf, extra=tk.wf())
                if m is not None: report_whichpage(chk, m, shape, tk, f'page_token present ({shape}) but result is {r}')
            else:
                if r.discr == 0:
                    wp = ex.payload(r)
                    good = ex.variant_name(wp) == 'First' and isinstance(ex.payload(wp), Opaque) and ex.payload(wp).payload is raw
                    m = chk.prove(f'whichpage/{shape}/first-page-from-all-params', pc, z3.BoolVal(not good))
                else:
                    m = chk.prove(f'whichpage/{shape}/error-only-for-bad-params', pc, fm_ok)
                if m is not None: report_whichpage(chk, m, shape, tk, f'no page_token ({shape}) but result is {r}')



def part_results_page(C, kmax=3):
    chk, ex, F_ser, F_de, F_which, F_new, F_limit, MAXLEN, n, sel, fails, base = unpack(C)
    # ---- (e) ResultsPage::new: token iff non-empty, derived from the LAST item
    for k_items in range(0, kmax + 1):
        items = [Opaque(f'item{i}') for i in range(k_items)]
        scan = Opaque('scan-params')
        def selector_fn(ex, item, sp):
            return Opaque('selector-of', (dv(item), dv(sp)))
        def h(ex):
            Env.json_len, Env.to_vec_fails = n, fails
            return ex.call_fn(F_new, [PVec([Cell(i) for i in items]), Ref(Cell(scan)), PyClosure(selector_fn)])
        outs = ex.explore(h, base)
        chk.paths += len(outs)
        for pc, (k, r) in outs:
            if k != 'ok':
                m = chk.prove(f'results-page/{k_items}/no-panic', pc, z3.BoolVal(True), extra=base)
                if m is not None: chk.mismatches.append(f'ResultsPage::new panicked: {r}')
                continue
            if r.discr == 1:
                st = httpmodel.status_of(ex, ex.payload(r))
                ok = k_items > 0 and isinstance(st, int) and 500 <= st <= 599
                m = chk.prove(f'results-page/{k_items}/error-only-if-token-cannot-be-issued', pc,
                              z3.Or(z3.BoolVal(not ok), z3.And(z3.Not(fails), z3.ULE(b64_len(n), MAXLEN))), extra=base)
                if m is not None: report_page(chk, m, k_items, n, f'ResultsPage::new failed with {st}')
                continue
            page = ex.payload(r)
            np_, its = ex.field(page, 'next_page').v, dv(ex.field(page, 'items').v)
            same_items = len(its.items) == k_items and all(c.v is i for c, i in zip(its.items, items))
            if k_items == 0: good = np_.discr == 0
            else:
                tok = ex.payload(np_) if np_.discr == 1 else None
                good = isinstance(tok, B64Text) and isinstance(tok.payload, JsonBytes) and \
                    isinstance(ex.field(tok.payload.value, 'page_start').v, Opaque) and \
                    ex.field(tok.payload.value, 'page_start').v.payload == (items[-1], scan)
            m = chk.prove(f'results-page/{k_items}/token-iff-nonempty-from-last-item', pc, z3.BoolVal(not (good and same_items)), extra=base,
                          prefer=[z3.ULE(n, 384)])
            if m is not None: report_page(chk, m, k_items, n, f'page of {k_items} items has next_page={np_} items={its}')



def part_page_limit(C):
    chk, ex, F_ser, F_de, F_which, F_new, F_limit, MAXLEN, n, sel, fails, base = unpack(C)
    # ---- (f) page_limit
    lim, mx, df = z3.BitVec('client_limit', 32), z3.BitVec('page_max_nitems', 32), z3.BitVec('page_default_nitems', 32)
    for has in (False, True):
        base_l = [lim != 0, mx != 0, df != 0]
        def h(ex):
            server = ex.mk_struct_partial('DropshotState', config=ex.mk_struct_partial('ServerConfig', page_max_nitems=mx, page_default_nitems=df))
            rq = ex.mk_struct_partial('RequestContext', server=Ref(Cell(server)))
            pp = ex.mk_struct_partial('PaginationParams', limit=ex.some(lim) if has else ex.none())
            return ex.call_fn(F_limit, [Ref(Cell(rq)), Ref(Cell(pp))])
        outs = ex.explore(h, base_l)
        chk.paths += len(outs)
        for pc, (k, r) in outs:
            if k != 'ok' or r.discr != 0:
                m = chk.prove(f'page_limit/{has}/always-ok', pc, z3.BoolVal(True), extra=base_l)
                report_limit(chk, m, has, lim, mx, df, f'page_limit failed: {r}'); continue
            v = ex.payload(r)
            while isinstance(v, Adt): v = v.fields[None][0].v
            want = z3.If(z3.ULE(lim, mx), lim, mx) if has else df
            if not z3.is_bv(v): raise Inconclusive(f'page_limit returned {v!r}')
            m = chk.prove(f'page_limit/{"client" if has else "default"}', pc, z3.Or(v != want, v == 0), extra=base_l,
                          prefer=[mx == 10000, df == 100])
            report_limit(chk, m, has, lim, mx, df, 'effective page size is not min(limit, max) / default')


def cv(m, t): return m.eval(t, model_completion=True).as_long()


def report_token(chk, m, n, what):
    if m is None: return
    L = cv(m, n)
    if L > 4096:
        chk.mismatches.append(f'model not replayable (selector JSON length {L}): {what}'); return
    case = {'op': 'page_token', 'json_len': L}
    if bool(m.eval(WIDE, model_completion=True)) and 4 * ((L + 2) // 3) <= 512:
        case = {'op': 'wide_token'}
        nat = replay([case])[0]
        chk.counterexample(f'{what}: selector holding 128-bit integers beyond the 64-bit range -> native {nat}', case, not nat.get('roundtrip_all', False), role='token:wide')
        return
    nat = replay([case])[0]
    fits = 4 * ((L + 2) // 3) <= 512
    if fits: bad = not nat.get('issued') or not nat.get('roundtrip_all') or nat.get('token_len', 0) > 512
    else: bad = nat.get('issued') or not (500 <= nat.get('issue_status', 0) <= 599)
    chk.counterexample(f'{what}: selector with JSON length {L} -> native {nat}', case, bad, role='token')


def report_token_panic(chk, what):
    """a panic while looking at the client's token text: replay tokens of several lengths with multi-byte characters at every small offset"""
    cases = []
    for total in (40, 600):
        for k in range(0, 24):
            for ch in ('\u00e9', '\u20ac', '\U0001F980'):
                cases.append({'op': 'token_in', 'len': 0, 'decodes': False, 'parses': False, 'token_text': 'A' * k + ch + 'A' * total})
    nats = replay(cases)
    bad = [(c_['token_text'][:20], n_.get('status')) for c_, n_ in zip(cases, nats) if not (400 <= n_.get('status', 0) <= 499)]
    chk.counterexample(f'{what}; tokens with a multi-byte character at offsets 0..23 natively: {bad[:4]} ({len(bad)} of {len(cases)} not answered with a 4xx)', cases[0], bool(bad), role='token-in:panic')


def report_token_in(chk, m, t, what):
    if m is None: return
    L, dec, par = cv(m, t.len), bool(m.eval(t.decodes, model_completion=True)), bool(m.eval(t.parses, model_completion=True))
    if L > 4096:
        chk.mismatches.append(f'model not replayable (token length {L}): {what}'); return
    case = {'op': 'token_in', 'len': L, 'decodes': dec, 'parses': par}
    ev = lambda x: bool(m.eval(x, model_completion=True))
    import base64
    good = b'{"v":"v1","page_start":{"s":"sel-value"}}'
    if dec and ev(t.prefix_parses) and ev(t.trailing) and L <= 512:
        case['token_text'] = base64.urlsafe_b64encode(good + b' {"v":"v1","page_start":{"s":"other"}}').decode()
    elif t.outer_ws is not None and ev(t.outer_ws[0]):
        inner = t.outer_ws[1]
        if ev(inner.decodes) and ev(inner.parses): case['token_text'] = ' ' + base64.urlsafe_b64encode(good).decode() + '\n'
    nat = replay([case])[0]
    if 'unbuildable' in nat:
        chk.mismatches.append(f'model not replayable ({nat["unbuildable"]}): {what}'); return
    want_ok = L <= 512 and dec and par
    bad = (nat.get('status') == 200) != want_ok or (not want_ok and not (400 <= nat.get('status', 0) <= 499))
    chk.counterexample(f'{what}: token of length {L} (base64 {"ok" if dec else "bad"}, JSON {"ok" if par else "bad"}) -> native {nat}', case, bad,
                       role='token-in')


def report_whichpage(chk, m, shape, tk, what):
    L = cv(m, tk.len)
    case = {'op': 'whichpage', 'shape': shape, 'len': min(L, 600)}
    ev = lambda t: bool(m.eval(t, model_completion=True))
    if 'token' in shape:
        # the token text the model describes: well-formed -> a token the server issued itself; otherwise the described kind of garbage
        wf = L <= 512 and ev(tk.decodes) and ev(tk.parses)
        if not wf:
            import base64
            if tk.outer_ws is not None and ev(tk.outer_ws[0]):
                inner = tk.outer_ws[1]
                ok_inner = ev(inner.decodes) and ev(inner.parses) and cv(m, inner.len) <= 512
                text = ' ' + (base64.urlsafe_b64encode(b'{"v":"v1","page_start":{"s":"sel-value"}}').decode() if ok_inner else '!!!!') + '\n'
            elif L == 0: text = ''
            elif not ev(tk.decodes): text = ('!' * min(max(L, 1), 600))
            elif L > 512: text = base64.urlsafe_b64encode(b'{"v":"v1","page_start":{"s":"' + b'a' * 400 + b'"}}').decode()
            else: text = base64.urlsafe_b64encode(b'{' * max(1, min(L, 512) * 3 // 4)).decode()
            case['token_text'] = text
        nat = replay([case])[0]
        bad = not nat.get('as_specified', False) if wf else not (400 <= nat.get('status', 0) <= 499)
        chk.counterexample(f'{what} -> native {nat}', case, bad, role='whichpage:' + shape)
        return
    nat = replay([case])[0]
    bad = not nat.get('as_specified', False)
    chk.counterexample(f'{what} -> native {nat}', case, bad, role='whichpage:' + shape)


def report_page(chk, m, k_items, n, what):
    L = cv(m, n)
    case = {'op': 'results_page', 'items': k_items, 'json_len': min(L, 4096)}
    nat = replay([case])[0]
    chk.counterexample(f'{what} (selector JSON length {L}) -> native {nat}', case, not nat.get('as_specified', False), role='results-page')


def report_limit(chk, m, has, lim, mx, df, what):
    if m is None: return
    l, x, d = cv(m, lim), cv(m, mx), cv(m, df)
    if x != 10000 or d != 100:
        chk.mismatches.append(f'model not replayable (the server constants are max=10000, default=100; model has {x}, {d}): {what}'); return
    case = {'op': 'page_limit', 'limit': l if has else None}
    nat = replay([case])[0]
    want = min(l, x) if has else d
    chk.counterexample(f'{what}: limit={l if has else None} max={x} default={d} -> native {nat}, expected {want} items', case,
                       nat.get('items') != want, role='page-limit')


def witnesses(chk):
    cases = []
    for L in (10, 200, 383, 384, 385, 386, 387, 400, 1000):
        cases.append({'op': 'page_token', 'json_len': L})
    res = replay(cases)
    for c, r in zip(cases, res):
        chk.replayed += 1
        L = c['json_len']
        fits = 4 * ((L + 2) // 3) <= 512
        if fits: good = r.get('issued') and r.get('roundtrip_all') and r.get('token_len', 0) <= 512
        else: good = not r.get('issued') and 500 <= r.get('issue_status', 0) <= 599
        if not good: chk.counterexample(f'selector with JSON length {L}: native {r}', c, True, role='token')
        if len(chk.samples) < 4: chk.samples.append({'case': c, 'native': r})
    long_token_transport(chk)
    for c in ({'op': 'wide_token'}, {'op': 'token_transport', 'names': ['a~', 'ab~', 'abc~', 'b>', 'bb>', '?', '??', 'zz'], 'limit': 1},
              {'op': 'token_transport', 'names': ['a~', 'ab~', 'abc~', 'b>', 'bb>', '?', '??', 'zz'], 'limit': 3}):
        r = replay([c])[0]
        chk.replayed += 1
        if not (r.get('roundtrip_all') or r.get('as_specified')): chk.counterexample(f'{c}: native {str(r)[:400]}', c, True, role='token:' + c['op'])
    cases = [{'op': 'token_in', 'len': L, 'decodes': d, 'parses': p} for (L, d, p) in
             [(512, True, True), (516, True, True), (600, True, True), (684, True, True), (100, False, False), (100, True, False), (8, True, False), (513, False, False)]]
    res = replay(cases)
    for c, r in zip(cases, res):
        chk.replayed += 1
        if 'unbuildable' in r: continue
        want_ok = c['len'] <= 512 and c['decodes'] and c['parses']
        good = (r.get('status') == 200) == want_ok and (want_ok or 400 <= r.get('status', 0) <= 499)
        if not good: chk.counterexample(f'incoming token {c}: native {r}', c, True, role='token-in')
    cases = [{'op': 'page_limit', 'limit': l} for l in (None, 1, 9999, 10000, 10001, 2147493649, 4294967295)] + \
            [{'op': 'page_limit_bad', 'text': t} for t in ('0', '-1', 'abc', '', '4294967296')] + \
            [{'op': 'whichpage', 'shape': s, 'len': 40} for s in ('token', 'token+other', 'other', 'extra+other', 'empty')] + \
            [{'op': 'results_page', 'items': k, 'json_len': 30} for k in (0, 1, 3)]
    res = replay(cases)
    for c, r in zip(cases, res):
        chk.replayed += 1
        if c['op'] == 'page_limit':
            want = 100 if c['limit'] is None else min(c['limit'], 10000)
            good = r.get('items') == want
        elif c['op'] == 'page_limit_bad': good = 400 <= r.get('status', 0) <= 499
        else: good = r.get('as_specified', False)
        if not good: chk.counterexample(f'{c}: native {r}', c, True, role='wire:' + c['op'])
        if len(chk.samples) < 8: chk.samples.append({'case': c, 'native': r})

"""C15 — Following next-page tokens visits every item exactly once.

The scan is an unbounded history, so it is not unrolled.  (i) The facts about the framework the
argument needs are established from MIR exactly as in C14 (token round trip; ResultsPage::new
gives a token iff the page is non-empty, derived from the last item, else fails loudly with a
5xx; page_limit is min(limit, max) / default and never 0).  (ii) One inductive step from an
arbitrary scan state is discharged by z3 over the documented keyset consumer pattern."""
import z3

from mirsym.runner import Inconclusive, replay
from props import c14


def run(tier, replay_file=None):
    C = c14.setup('C15', tier)
    chk = C['chk']
    n_before = len(chk.obligations)
    c14.part_tokens(C)
    c14.part_transport(C)
    c14.long_token_transport(C['chk'])
    c14.part_results_page(C, kmax=3 if tier == 'quick' else 5)
    c14.part_page_limit(C)
    c14.part_whichpage(C)      # the first page's scan mode is what the client asked for (every non-token parameter reaches the scan type)
    facts_ok = all(o['result'] == 'unsat' for o in chk.obligations[n_before:]) and not chk.violations and not chk.mismatches
    chk.extra['framework_facts_from_mir'] = {'obligations': len(chk.obligations) - n_before, 'all_discharged': facts_ok}

    # ---- inductive step (uses only the facts above + the consumer model)
    n, p, lim, mx, df = z3.Ints('collection_size position client_limit page_max page_default')
    has_lim = z3.Bool('client_sent_limit')
    L = z3.Int('effective_limit')
    page_len, p2 = z3.Ints('page_len next_position')
    token = z3.Bool('token_returned')
    state = [n >= 0, 0 <= p, p <= n, lim >= 1, mx >= 1, df >= 1, df <= mx]
    fact_limit = [L == z3.If(has_lim, z3.If(lim <= mx, lim, mx), df)]                   # page_limit (proved above for all u32)
    consumer = [page_len == z3.If(L <= n - p, L, n - p)]                                  # documented keyset pattern: the next min(limit, remaining) items after the marker
    fact_page = [token == (page_len > 0), p2 == p + page_len]                             # ResultsPage::new + token round trip: the token denotes the last delivered item
    hyp = state + fact_limit + consumer + fact_page
    goals = {
        'page-holds-at-most-effective-limit': z3.And(page_len <= L, L <= mx, L >= 1),
        'no-item-skipped-or-repeated': z3.And(p2 == p + page_len, page_len >= 0, p2 <= n),   # delivered' = items[0..p2): contiguous extension of items[0..p)
        'progress-while-items-remain': z3.Implies(p < n, p2 > p),
        'token-iff-page-non-empty': token == (page_len > 0),
        'scan-ends-exactly-when-everything-was-delivered': z3.Implies(z3.Not(token), p2 == n) if False else z3.Implies(z3.And(z3.Not(token), p == p2), p == n),
        'terminates': z3.Implies(p < n, n - p2 < n - p),
    }
    for name, g in goals.items():
        m = chk.prove('induction/' + name, hyp, z3.Not(g))
        if m is not None:
            raise Inconclusive(f'inductive step {name} fails in the model (consumer model / facts inconsistent): {m}')
    m = chk.witness('induction/hypotheses-satisfiable', hyp, z3.And(p < n, page_len >= 2, has_lim))
    chk.assumptions += ['consumer model (trusted): for an unchanging strictly ordered collection the handler returns the next min(effective limit, remaining) '
                        'items after the marker in the token (the documented keyset pattern used by the examples)',
                        'the collection does not change during the scan']
    chk.bounds['induction'] = 'one step from an arbitrary scan state (any collection size, position, limits): covers histories of any length'
    chk.bounds['page_shapes_from_mir'] = '0..3 items per page (quick) / 0..5 (thorough); ResultsPage::new only looks at emptiness and the last item'

    # ---- wire: complete scans on a loop-back server
    cases = [{'op': 'scan', 'n': n_, 'limit': l_, 'desc': d_} for (n_, l_, d_) in
             [(0, None, False), (0, 5, False), (1, 1, False), (7, 1, True), (7, 3, False), (250, None, False), (250, 100, True), (12000, 20000, False),
              (12000, 4294967295, False), (10001, 10000, False)]]
    res = replay(cases)
    for c, r in zip(cases, res):
        chk.replayed += 1
        if not r.get('as_specified'):
            chk.counterexample(f'full scan {c}: native {r}', c, True, role='scan')
        if len(chk.samples) < 6: chk.samples.append({'case': c, 'native': r})
    return chk.finish('framework facts: one obligation per (function, shape, path, clause); induction: one obligation per goal')

"""C06 — operation set of the OpenAPI document.

The deciding step is the symbolic check of the version-filtered router iterator (props/router_run.py, check_iter):
gen_openapi lists exactly what HttpRouter::endpoints(Some(v)) yields and is published.  On top of it, a native
document-level witness: ApiDescription::openapi(..) for a fixed family of tables is generated for every registration
order, twice, at versions around every range bound."""
import itertools

from mirsym.runner import replay
from props import router_run


def document_witness(chk):
    eps = [{'id': 'get_a', 'method': 'GET', 'path': '/a', 'versions': {'k': 'FromUntil', 'a': '1.0.0', 'b': '2.0.0'}, 'tags': ['Widgets']},
           {'id': 'get_a_v2', 'method': 'GET', 'path': '/a', 'versions': {'k': 'From', 'a': '2.0.0'}},
           {'id': 'put_a', 'method': 'PUT', 'path': '/a', 'versions': {'k': 'All'}, 'tags': ['widgets', 'zeta']},
           {'id': 'get_b_hidden', 'method': 'GET', 'path': '/b', 'versions': {'k': 'From', 'a': '1.0.0'}, 'visible': False},
           {'id': 'get_a_b', 'method': 'GET', 'path': '/a/b', 'versions': {'k': 'Until', 'b': '1.5.0'}},
           {'id': 'get_root', 'method': 'GET', 'path': '/', 'versions': {'k': 'FromUntil', 'a': '1.5.0', 'b': '1.5.0'}},
           # every method the document format has a slot for, on one path
           {'id': 'head_m', 'method': 'HEAD', 'path': '/m', 'versions': {'k': 'All'}}, {'id': 'options_m', 'method': 'OPTIONS', 'path': '/m', 'versions': {'k': 'From', 'a': '1.0.0'}},
           {'id': 'patch_m', 'method': 'PATCH', 'path': '/m', 'versions': {'k': 'All'}}, {'id': 'delete_m', 'method': 'DELETE', 'path': '/m', 'versions': {'k': 'Until', 'b': '2.0.0'}},
           {'id': 'post_m', 'method': 'POST', 'path': '/m', 'versions': {'k': 'All'}}, {'id': 'get_m', 'method': 'GET', 'path': '/m', 'versions': {'k': 'All'}, 'tags': ['widgetS', 'Alpha', 'alpha']},
           {'id': 'put_m', 'method': 'PUT', 'path': '/m', 'versions': {'k': 'All'}}]
    import random
    rnd = random.Random(20261003)
    orders = [list(range(len(eps))), list(range(len(eps)))[::-1]]
    for _ in range(18):
        o = list(range(len(eps))); rnd.shuffle(o); orders.append(o)
    versions = ['0.9.0', '1.0.0', '1.4.9', '1.5.0', '1.5.1', '2.0.0-rc.1', '2.0.0', '3.0.0']
    case = {'op': 'openapi', 'endpoints': eps, 'orders': orders, 'versions': versions, 'tag_config': ['Zoo', 'zoo', 'widgets']}
    r = replay([case])[0]
    chk.replayed += 1
    import re
    def num(v):
        m = re.match(r'(\d+)\.(\d+)\.(\d+)(-(.*))?', v); return (int(m.group(1)), int(m.group(2)), int(m.group(3)), 0 if m.group(4) is None else -1)
    def inr(vs, v):
        k = vs['k']
        if k == 'All': return True
        if k == 'From': return num(v) >= num(vs['a'])
        if k == 'Until': return num(v) < num(vs['b'])
        return num(v) >= num(vs['a']) and (num(v) < num(vs['b']) or (num(v) == num(vs['b']) and vs['a'] == vs['b']))
    st = r.get('shared_type') or {}
    # a named type used as a query member and in a body: published once, with the annotations of its processed form
    shared_ok = st.get('example') == 'ByName' and 'description' in st and sorted(x.get('enum', [None])[0] for x in st.get('oneOf', [])) == ['ById', 'ByName']
    ok = r.get('same_across_orders') and r.get('same_twice') and r.get('refs_resolve') and 'per_version' in r and shared_ok
    if ok:
        for pv in r['per_version']:
            want = sorted([[e['path'], e['method'], e['id']] for e in eps if e.get('visible', True) and inr(e['versions'], pv['version'])] + [['/zz-doc', 'GET', 'doc_endpoint'], ['/zz-ws-old', 'GET', 'zz_ws_old']])
            # the op also registers an unpublished channel (never listed) and a deprecated one (listed, and the only deprecated operation)
            if sorted(pv['operations']) != want or pv.get('deprecated') != ['zz_ws_old']: ok = False
    if not ok:
        chk.counterexample(f'OpenAPI document witness: native {r}', case, True, role='document')
    chk.samples.append({'document_witness': {'orders': len(orders), 'versions': versions, 'native_summary': {k: r.get(k) for k in ('same_across_orders', 'same_twice', 'refs_resolve')}}})


def document_version_flow(chk):
    """ApiDescription::openapi / OpenApiDefinition::{new, json, write}: the version the document is generated for (the one handed to
    gen_openapi, hence to HttpRouter::endpoints) is exactly the version the caller asked for, and the document's info.version is its
    rendering.  gen_openapi itself is replaced by a stub recording its arguments (its operation set is the iterator checked above)."""
    import glob, os, re
    import z3
    from mirsym import mir
    from mirsym.core import Cell, Opaque, Ref, Tup, Unsupported, dv
    from mirsym.runner import Inconclusive, REPO
    from props.vermodel import V, v_eq, concretise
    ex = router_run.G['ex']
    f = ex.fns
    F_openapi = mir.find(f, r'api_description::<impl at [^>]*>::openapi$')
    outs_fns = {name: [n for n in mir.find(f, r'api_description::<impl at [^>]*>::' + name + '$', unique=False) if 'OpenApiDefinition' in f[n].locals.get('_1', '')] for name in ('json', 'write')}
    for k_, v_ in outs_fns.items():
        if len(v_) != 1: raise Inconclusive(f'cannot locate OpenApiDefinition::{k_}: {v_}')
    lock = open(os.path.join(REPO, 'Cargo.lock')).read()
    for ver in re.findall(r'name = "openapiv3"\nversion = "([^"]+)"', lock):
        for p_ in glob.glob(os.path.expanduser(f'~/.cargo/registry/src/*/openapiv3-{ver}/src/info.rs')): ex.L.add_source(p_, only={'Info'})
    want = V('document_version')
    rec = {}
    def m_gen(ex, a, c):
        rec['info'], rec['version'] = dv(a[1]), dv(a[2])
        return Opaque('openapi-document')
    local = [(r'gen_openapi$', m_gen, True), (r'<(semver::)?Version as ToString>::to_string$', lambda ex, a, c: Opaque('rendered-version', dv(a[0]))),
             (r'^(serde_json::)?to_value::|^(serde_json::)?to_writer_pretty::', lambda ex, a, c: ex.ok(Opaque('json', dv(a[-1])))),
             (r'<dyn (std::io::)?Write as (std::io::)?Write>::write_fmt$|<dyn (std::io::)?Write as (std::io::)?Write>::write_all$', lambda ex, a, c: ex.ok(Tup([]))),
             (r'<S as AsRef<str>>::as_ref$', lambda ex, a, c: dv(a[0])), (r'<(openapiv3::)?Info as Clone>::clone$', lambda ex, a, c: dv(a[0]))]
    saved = ex.models
    ex.models = local + ex.models
    try:
        for name, (F_out,) in outs_fns.items():
            def h(ex):
                rec.clear()
                od = ex.call_fn(F_openapi, [Ref(Cell(Opaque('api-description'))), 'title', want.adt()])
                args = [Ref(Cell(od))] + ([Opaque('writer')] if name == 'write' else [])
                ex.call_fn(F_out, args)
                return dict(rec)
            outs = ex.explore(h, want.wf())
            chk.paths += len(outs)
            n = 0
            for pc, (k, r) in outs:
                if k != 'ok' or 'version' not in r:
                    m = chk.prove(f'document-version/{name}/reaches-generation', pc, z3.BoolVal(True), extra=want.wf())
                    if m is not None: chk.mismatches.append(f'OpenApiDefinition::{name} does not reach gen_openapi: {r}')
                    continue
                n += 1
                info_v = dv(ex.field(r['info'], 'version').v)
                rendered_same = isinstance(info_v, Opaque) and info_v.tag == 'rendered-version'
                bad = [z3.Not(v_eq(r['version'], want)), z3.BoolVal(not rendered_same)]
                if rendered_same: bad.append(z3.Not(v_eq(info_v.payload, want)))
                m = chk.prove(f'document-version/{name}/generated-for-exactly-the-requested-version', pc, z3.Or(bad), extra=want.wf())
                if m is not None:
                    c = concretise(m, [want])
                    eps = [{'id': 'old', 'method': 'GET', 'path': '/a', 'versions': {'k': 'Until', 'b': '%d.%d.%d' % tuple(m.eval(t, model_completion=True).as_long() for t in (want.major, want.minor, want.patch))}},
                           {'id': 'new', 'method': 'GET', 'path': '/a', 'versions': {'k': 'From', 'a': '%d.%d.%d' % tuple(m.eval(t, model_completion=True).as_long() for t in (want.major, want.minor, want.patch))}}]
                    case = {'op': 'openapi', 'endpoints': eps, 'orders': [[0, 1]], 'versions': [c[want.name]]}
                    nat = replay([case])[0]
                    ops = (nat.get('per_version') or [{}])[0].get('operations')
                    served = 'old' if ('-' in c[want.name]) else 'new'       # a pre-release of x.y.z precedes x.y.z
                    good = ops is not None and sorted(o[2] for o in ops if o[2] != 'doc_endpoint' and not o[2].startswith('zz_')) == [served]
                    chk.counterexample(f'the document is generated for {r["version"]} / info.version {info_v}, not for the requested version: document for {c[want.name]} of an API '
                                       f'with `until x.y.z` / `from x.y.z` lists {ops}', case, not good, role='document-version')
            if not n: raise Inconclusive(f'vacuity: OpenApiDefinition::{name} never reaches gen_openapi; {ex.unsupported_paths[-2:]}')
    finally:
        ex.models = saved


def tag_order(chk):
    """identical bytes on every generation: the document's `tags` array is collected from hash containers (fresh random iteration order on
    every call) and made stable only by the sort in gen_openapi.  That sort's comparator / key function, taken from the MIR, must order
    distinct tag names strictly: no two different names compare equal, and the comparison is antisymmetric and transitive."""
    import glob, os, re
    import z3
    from mirsym import mir
    from mirsym.core import Cell, Closure, PMap, Ref, SB, Unsupported, dv
    from mirsym.models import val_eq
    from mirsym.runner import Inconclusive, REPO
    from props import strmodel
    ex = router_run.G['ex']
    f = ex.fns
    F_gen = mir.find(f, r'api_description::<impl at [^>]*>::gen_openapi$')
    lock = open(os.path.join(REPO, 'Cargo.lock')).read()
    for ver in re.findall(r'name = "openapiv3"\nversion = "([^"]+)"', lock):
        for p_ in glob.glob(os.path.expanduser(f'~/.cargo/registry/src/*/openapiv3-{ver}/src/tag.rs')): ex.L.add_source(p_, only={'Tag'})
    sorts = re.findall(r'impl \[(?:openapiv3::)?Tag\]>::(sort\w*)::<.*?\{closure@([^}]*)\}', f[F_gen].text)
    def native(names, what):
        eps = [{'id': f'op{i}', 'method': 'GET', 'path': f'/t{i}', 'versions': {'k': 'All'}, 'tags': [n_]} for i, n_ in enumerate(names)]
        case = {'op': 'openapi', 'endpoints': eps, 'orders': [list(range(len(eps))), list(range(len(eps)))[::-1]] * 8, 'versions': ['1.0.0', '2.0.0']}
        nat = replay([case])[0]
        chk.counterexample(f'{what}; native: documents for endpoints tagged {names}: same_twice={nat.get("same_twice")} same_across_orders={nat.get("same_across_orders")} '
                           f'tags={(nat.get("per_version") or [{}])[0].get("tags")}', case, not (nat.get('same_twice') and nat.get('same_across_orders')), role='tag-order')
    if not sorts:
        native(['Widgets', 'widgets', 'alpha', 'Alpha'], 'gen_openapi no longer sorts the tags it collects from hash containers')
        if not chk.violations: raise Inconclusive('gen_openapi: no sort of the tag list found in the MIR, and the native documents are stable')
        return
    saved = ex.models
    ex.models = [m for m in strmodel.MODELS if 'lowercase' in m[0] or 'uppercase' in m[0]] + ex.models
    def tag(name): return ex.mk_struct('Tag', name=name, description=ex.none(), external_docs=ex.none(), extensions=PMap())
    def text(m, bs): return bytes(m.eval(b, model_completion=True).as_long() for b in bs).decode('latin1')
    try:
        for kind, span in sorts:
            clo = Closure(ex.closure_by_span(span), [])
            by_key = 'key' in kind
            for lens in [(1, 1, 1), (2, 2, 2), (1, 2, 2), (2, 1, 3), (3, 3, 3)]:
                names = [[z3.BitVec(f'tag{i}_{j}', 8) for j in range(n)] for i, n in enumerate(lens)]
                assume = [z3.And(z3.UGE(b, 0x20), z3.ULE(b, 0x7e)) for n in names for b in n]
                A, B_, C = [SB(n) for n in names]
                if by_key:
                    def h(ex): return [ex.call_closure(clo, [Ref(Cell(tag(x)))]) for x in (A, B_)]
                else:
                    def h(ex):
                        c = lambda x, y: ex.variant_name(dv(ex.call_closure(clo, [Ref(Cell(tag(x))), Ref(Cell(tag(y)))])))
                        return [c(A, B_), c(B_, A), c(B_, C), c(A, C)]
                outs = ex.explore(h, assume)
                chk.paths += len(outs)
                if not outs: raise Inconclusive(f'vacuity: tag sort closure explored no path; {ex.unsupported_paths[-1:]}')
                tagn = f'tag-order/{kind}/{"-".join(map(str, lens))}'
                for pc, (k, r) in outs:
                    if k != 'ok':
                        m = chk.prove(f'{tagn}/no-panic', pc, z3.BoolVal(True), extra=assume)
                        if m is not None: native([text(m, names[0]), text(m, names[1])], f'the tag sort panics: {r}')
                        continue
                    differ = z3.Not(val_eq(ex, A, B_)) if len(names[0]) == len(names[1]) else z3.BoolVal(True)
                    if by_key:
                        m = chk.prove(f'{tagn}/distinct-names-have-distinct-keys', pc, z3.And(differ, val_eq(ex, r[0], r[1])), extra=assume)
                        if m is not None: native([text(m, names[0]), text(m, names[1])], f'the tag sort key ({kind}) is the same for two different tag names')
                    else:
                        ab, ba, bc, ac = r
                        m = chk.prove(f'{tagn}/distinct-names-never-compare-equal', pc, z3.And(differ, z3.BoolVal(ab == 'Equal')), extra=assume)
                        if m is not None: native([text(m, names[0]), text(m, names[1])], f'the tag comparator ({kind}) calls two different tag names equal')
                        flip = {'Less': 'Greater', 'Greater': 'Less', 'Equal': 'Equal'}
                        m = chk.prove(f'{tagn}/antisymmetric', pc, z3.BoolVal(ba != flip[ab]), extra=assume)
                        if m is not None: native([text(m, names[0]), text(m, names[1])], f'the tag comparator ({kind}) is not antisymmetric: {ab} / {ba}')
                        m = chk.prove(f'{tagn}/transitive', pc, z3.BoolVal(ab == 'Less' and bc == 'Less' and ac != 'Less'), extra=assume)
                        if m is not None: native([text(m, n_) for n_ in names], f'the tag comparator ({kind}) is not transitive')
    finally:
        ex.models = saved
    chk.bounds['tag_names'] = 'two / three tag names of 1..3 printable ASCII bytes each (symbolic) through the sort closure of gen_openapi'


def before_finish(chk):
    document_witness(chk)
    document_version_flow(chk)
    tag_order(chk)


def run(tier, replay_file=None):
    return router_run.run('C06', tier, replay_file, before_finish=before_finish)

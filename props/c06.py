"""C06 — operation set of the OpenAPI document.

The deciding step is the symbolic check of the version-filtered router iterator (props/router_run.py, check_iter):
gen_openapi lists exactly what HttpRouter::endpoints(Some(v)) yields and is published.  On top of it, a native
document-level witness: ApiDescription::openapi(..) for a fixed family of tables is generated for every registration
order, twice, at versions around every range bound."""
import itertools

from mirsym.runner import replay
from props import router_run


def document_witness(chk):
    eps = [{'id': 'get_a', 'method': 'GET', 'path': '/a', 'versions': {'k': 'FromUntil', 'a': '1.0.0', 'b': '2.0.0'}},
           {'id': 'get_a_v2', 'method': 'GET', 'path': '/a', 'versions': {'k': 'From', 'a': '2.0.0'}},
           {'id': 'put_a', 'method': 'PUT', 'path': '/a', 'versions': {'k': 'All'}},
           {'id': 'get_b_hidden', 'method': 'GET', 'path': '/b', 'versions': {'k': 'From', 'a': '1.0.0'}, 'visible': False},
           {'id': 'get_a_b', 'method': 'GET', 'path': '/a/b', 'versions': {'k': 'Until', 'b': '1.5.0'}},
           {'id': 'get_root', 'method': 'GET', 'path': '/', 'versions': {'k': 'FromUntil', 'a': '1.5.0', 'b': '1.5.0'}}]
    orders = [list(o) for o in itertools.islice(itertools.permutations(range(len(eps))), 0, 720, 37)]
    versions = ['0.9.0', '1.0.0', '1.4.9', '1.5.0', '1.5.1', '2.0.0-rc.1', '2.0.0', '3.0.0']
    case = {'op': 'openapi', 'endpoints': eps, 'orders': orders, 'versions': versions}
    r = replay([case])[0]
    chk.replayed += 1
    import re
    def num(v):
        m = re.match(r'(\d+)\.(\d+)\.(\d+)(-(.*))?', v); return (int(m.group(1)), int(m.group(2)), int(m.group(3)), 0 if m.group(4) is None else -1)
    def inr(vs, v):
        k = vs['k']
        if k == 'All': return True
        if k == 'From': return num(v) >= num(vs['a'])
        if k == 'Until': return num(v) < num(vs['b'])
        return num(v) >= num(vs['a']) and (num(v) < num(vs['b']) or (num(v) == num(vs['b']) and vs['a'] == vs['b']))
    ok = r.get('same_across_orders') and r.get('same_twice') and r.get('refs_resolve') and 'per_version' in r
    if ok:
        for pv in r['per_version']:
            want = sorted([[e['path'], e['method'], e['id']] for e in eps if e.get('visible', True) and inr(e['versions'], pv['version'])] + [['/zz-doc', 'GET', 'doc_endpoint']])
            if sorted(pv['operations']) != want: ok = False
    if not ok:
        chk.counterexample(f'OpenAPI document witness: native {r}', case, True, role='document')
    chk.samples.append({'document_witness': {'orders': len(orders), 'versions': versions, 'native_summary': {k: r.get(k) for k in ('same_across_orders', 'same_twice', 'refs_resolve')}}})


def run(tier, replay_file=None):
    return router_run.run('C06', tier, replay_file, before_finish=document_witness)

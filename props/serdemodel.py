"""A model of what #[derive(Deserialize)] generates (serde's documented data model), so that dropshot's own
Deserializer / MapAccess / SeqAccess implementations in from_map.rs can be executed from MIR:
  struct  -> deserialize_struct + visit_map { next_key::<Field> (deserialize_identifier/visit_str) ; next_value::<T> }
  scalars -> deserialize_<ty> + visit_<ty>;  String -> deserialize_string + visit_str;  Vec<T> -> deserialize_seq + visit_seq
  Option<T> -> deserialize_option + visit_some(d) -> T::deserialize(d)
The value a visitor is handed is what the decoded field holds (data-flow)."""
import re

import z3

from mirsym.core import Adt, Cell, Opaque, Panic, PVec, Ref, SymStr, Tup, Unsupported, dv

SCALARS = ('bool', 'i8', 'i16', 'i32', 'i64', 'u8', 'u16', 'u32', 'u64', 'f32', 'f64', 'char')


class Ty:
    def __init__(self, kind, arg=None): self.kind, self.arg = kind, arg
    def __repr__(self): return f'Ty({self.kind},{self.arg})'


class Env:
    target = None        # Ty of the value being decoded by from_map
    F = {}               # MIR names of dropshot's Deserializer / MapAccess / SeqAccess methods


def setup(ex):
    from mirsym import mir
    f = ex.fns
    def one(pat, arg0=None):
        c = [n for n in mir.find(f, pat, unique=False) if arg0 is None or arg0 in f[n].locals.get('_1', '')]
        if len(c) != 1: raise Unsupported(f'cannot locate {pat}: {c}')
        return c[0]
    for m in ('deserialize_struct', 'deserialize_map', 'deserialize_identifier', 'deserialize_string', 'deserialize_str', 'deserialize_seq', 'deserialize_option', 'deserialize_ignored_any') + \
            tuple('deserialize_' + t for t in SCALARS):
        Env.F[m] = one(r'from_map::<impl at [^>]*>::' + m + '$', 'MapDeserializer')
    Env.F['next_key_seed'] = one(r'from_map::<impl at [^>]*>::next_key_seed$')
    Env.F['next_value_seed'] = one(r'from_map::<impl at [^>]*>::next_value_seed$')
    Env.F['next_element_seed'] = one(r'from_map::<impl at [^>]*>::next_element_seed$')


def deserialize_as(ex, ty, de):
    """T::deserialize(de) as serde-derive / serde's std impls do it"""
    if ty.kind == 'struct':
        return ex.call_fn(Env.F['deserialize_struct'], [de, 'Struct', Ref(Cell(PVec([Cell(n_) for n_, _ in (ty.arg or [])]))), Opaque('visitor', ty)])
    if ty.kind == 'string':
        return ex.call_fn(Env.F['deserialize_string'], [de, Opaque('visitor', ty)])
    if ty.kind == 'seq':
        return ex.call_fn(Env.F['deserialize_seq'], [de, Opaque('visitor', ty)])
    if ty.kind == 'option':
        return ex.call_fn(Env.F['deserialize_option'], [de, Opaque('visitor', ty)])
    if ty.kind == 'ignored':
        return ex.call_fn(Env.F['deserialize_ignored_any'], [de, Opaque('visitor', ty)])
    if ty.kind in SCALARS:
        return ex.call_fn(Env.F['deserialize_' + ty.kind], [de, Opaque('visitor', ty)])
    raise Unsupported(f'deserialize model for {ty}')


def m_deserialize_T(ex, args, callee):
    return deserialize_as(ex, Env.target, args[0])


def m_seed_deserialize(ex, args, callee):
    seed, de = dv(args[0]), args[1]
    if seed.payload == 'field':
        return ex.call_fn(Env.F['deserialize_identifier'], [de, Opaque('visitor', Ty('field'))])
    return deserialize_as(ex, seed.payload, de)


def m_visit(ex, args, callee):
    kind = re.search(r'::visit_(\w+)', callee).group(1)
    vis = dv(args[0])
    ty = vis.payload if isinstance(vis, Opaque) and vis.tag == 'visitor' else None
    if kind == 'map':
        fields = dict(ty.arg)
        got = {}
        acc = Cell(args[1])
        for _ in range(len(fields) + 3):
            r = ex.call_fn(Env.F['next_key_seed'], [Ref(acc), Opaque('seed', 'field')])
            if r.discr == 1: return r
            o = ex.payload(r)
            if o.discr == 0: break
            name = dv(ex.payload(o))
            if not isinstance(name, str): raise Unsupported(f'field name {name!r}')
            if name in got: return ex.err(ex.mk_struct('MapError', **{'0': 'duplicate field'}))
            if name not in fields:
                # serde derive without deny_unknown_fields: `_ => { map.next_value::<IgnoredAny>()?; }`
                v = ex.call_fn(Env.F['next_value_seed'], [Ref(acc), Opaque('seed', Ty('ignored'))])
                if v.discr == 1: return v
                continue
            v = ex.call_fn(Env.F['next_value_seed'], [Ref(acc), Opaque('seed', fields[name])])
            if v.discr == 1: return v
            got[name] = ex.payload(v)
        else:
            raise Unsupported('visit_map did not terminate')
        for n_, t_ in fields.items():
            if n_ not in got:
                if t_.kind == 'option': got[n_] = ('none',)
                else: return ex.err(ex.mk_struct('MapError', **{'0': 'missing field: ' + n_}))
        return ex.ok(Opaque('decoded-struct', got))
    if kind == 'seq':
        acc = Cell(args[1]); out = []
        for _ in range(16):
            r = ex.call_fn(Env.F['next_element_seed'], [Ref(acc), Opaque('seed', ty.arg)])
            if r.discr == 1: return r
            o = ex.payload(r)
            if o.discr == 0: return ex.ok(Opaque('decoded-seq', out))
            out.append(ex.payload(o))
        raise Unsupported('visit_seq did not terminate')
    if kind == 'some':
        inner = deserialize_as(ex, ty.arg, args[1])
        return inner if inner.discr == 1 else ex.ok(('some', ex.payload(inner)))
    if kind in ('str', 'string', 'borrowed_str'):
        if ty is not None and ty.kind == 'ignored': return ex.ok(Opaque('ignored-any'))
        return ex.ok(dv(args[1]))
    return ex.ok(Opaque('visited', (kind, args[1])))


MODELS = [
    (r'^<T as [\w:]*Deserialize<.*>>::deserialize::<', m_deserialize_T),
    (r'^<[KVT] as [\w:]*DeserializeSeed<.*>>::deserialize::<', m_seed_deserialize),
    (r' as [\w:]*Visitor<.*>>::visit_\w+(::<.*>)?$', m_visit),
]

"""server.rs::http_request_handle executed from MIR (both handler task modes; in Detached mode the
spawned task is run to completion before the receiver is polled — one legal schedule, no
concurrency claim).  Shared by C09 (the handler sees its own request's data), C13 (request-id
stamping), C01/C05 (the resolved version is the one routed at) and C10 (no handler on errors)."""
import itertools
import re

import z3

from mirsym import mir, refeval
from mirsym.core import Adt, Cell, Opaque, Panic, PMap, PVec, Ref, SymStr, Tup, Unsupported, dv, lit, StrSort, zand, zor, znot, zbool
from mirsym.models import BASE_MODELS, val_eq
from mirsym.runner import Inconclusive
from props import asyncmodel as AM, httpmodel, routerlib as RL, vermodel
from props.httpmodel import HMap, HV, Response
from props.routerlib import Endpoint, Request as RtRequest, template_match, expected_vars
from props.vermodel import V, v_le


class Rec:
    calls = []          # (handler id, rqctx, request) for every handler invocation on this path
    result = None       # what the (modelled) user handler returns
    spawned = 0


def m_handle_request(ex, args, callee):
    h = dv(args[0])
    Rec.calls.append((h.payload if isinstance(h, Opaque) else h, args[1], args[2]))
    return Adt('Pin', 0, {None: [Cell(Ref(Cell(Opaque('readyfut', Rec.result(ex)))))]})


def m_spawn(ex, args, callee):
    """tokio::spawn(fut): the task runs to completion before the spawner is resumed (one legal schedule)"""
    Rec.spawned += 1
    co = args[0]
    out = AM.drive(ex, Cell(co))
    return Opaque('join-handle', out)


class Chan:
    def __init__(self): self.value = None


def m_oneshot_channel(ex, args, callee):
    ch = Chan()
    return Tup([Cell(Opaque('oneshot-tx', ch)), Cell(Opaque('oneshot-rx', ch))])


def m_oneshot_send(ex, args, callee):
    ch = dv(args[0]).payload
    ch.value = args[1]
    return ex.ok(Tup([]))


def m_oneshot_poll(ex, args, callee):
    rx = AM.pinned(args[0]).v
    ch = rx.payload
    if ch.value is None: return AM.poll_ready(ex, ex.err(Opaque('RecvError')))
    return AM.poll_ready(ex, ex.ok(ch.value))


def m_dyn_dispatch(ex, args, callee):
    """`<dyn Trait as Trait>::method(self, ..)`: dispatch on the concrete type of the receiver"""
    m = re.match(r'^<dyn (\w+)(?:<.*?>)? as .*>::(\w+)(::<.*>)?$', callee)
    recv = dv(args[0])
    if isinstance(recv, Adt):
        return ex.do_call(f'<{recv.ty} as {m.group(1)}>::{m.group(2)}', args)
    raise Unsupported(f'dyn call {callee} on {recv!r}')


class UriV:
    def __init__(self, name): self.name = name
    def __repr__(self): return f'Uri({self.name})'


MODELS = [
    (r'^<dyn RouteHandler<.*> as RouteHandler<.*>>::handle_request', m_handle_request),
    (r'^<dyn DynamicVersionPolicy as DynamicVersionPolicy>::', m_dyn_dispatch),
    (r'^tokio::spawn::<|^tokio::task::spawn::<', m_spawn),
    (r'^tokio::sync::oneshot::channel::<', m_oneshot_channel),
    (r'oneshot::Sender::<.*>::send$', m_oneshot_send),
    (r'<tokio::sync::oneshot::Receiver<.*> as (futures::)?Future>::poll$', m_oneshot_poll),
    (r'<tokio::sync::oneshot::Receiver<.*> as (std::future::)?IntoFuture>::into_future$', lambda ex, a, c: a[0]),
    (r'Request::<.*>::map::<', lambda ex, a, c: a[0]),
    (r'Request::<.*>::method$', lambda ex, a, c: Ref(Cell(dv(a[0]).method))),
    (r'Request::<.*>::uri$', lambda ex, a, c: Ref(Cell(dv(a[0]).uri))),
    (r'Request::<.*>::version$', lambda ex, a, c: dv(a[0]).version),
    (r'^Uri::path$', lambda ex, a, c: Opaque('uri-path', dv(a[0]))),
    (r'<DebugIgnore<.*> as Clone>::clone$|<Logger<.*> as Clone>::clone$', lambda ex, a, c: dv(a[0])),
    # slog: the static level filter makes the logging statements dead code for this analysis
    (r'^Level::as_usize$|slog::Level::as_usize$', lambda ex, a, c: 6),
    (r'^FilterLevel::as_usize$|slog::FilterLevel::as_usize$', lambda ex, a, c: 0),
    (r'^slog::__slog_static_max_level$', lambda ex, a, c: Opaque('filter-level')),
    (r'^Logger::<.*>::log$|^Record::<.*>::new$|^Logger::<.*>::new::<|SingleKV<.*> as From<|^slog::', lambda ex, a, c: Opaque('slog')),
]


class Glue:
    def __init__(self, chk, ex):
        self.chk, self.ex = chk, ex
        self.R = RL.Router(chk, ex)
        f = ex.fns
        self.F_handle = mir.find(f, r'(^|::)http_request_handle$')

    def run(self, eps, policy, mode, handler_result, assertions, tag):
        """explore http_request_handle for one table / version policy / task mode / handler behaviour"""
        chk, ex, R = self.chk, self.ex, self.R
        kmax = max(len(e.tmpl) for e in eps)
        rid = SymStr(z3.Const('request_id', StrSort))
        present, ascii_ok, parses = z3.Bools('hdr_present hdr_ascii hdr_parses')
        hv, vmax = V('hdr_version'), V('max_version')
        n_paths = 0
        for k in range(kmax + 1):
            rq = RtRequest(k, ['GET', 'PUT', 'DELETE', 'HEAD', 'OPTIONS'], versioned=False, tag=f'g{k}')
            uri, remote = UriV('request-uri'), Opaque('remote-addr')
            hmap_cell = []
            def h(ex):
                Rec.calls, Rec.spawned, Rec.result = [], 0, handler_result
                rc, rej, msg = R.build(ex, eps, list(range(len(eps))))
                if rej is not None: return None            # this version assignment makes the table conflict: nothing to serve
                RL.Ctx.cur_segments = rq.segs
                hm = HMap([('api-version', httpmodel.SymHeaderValue(present, ascii_ok, parses, hv.adt())), ('x-other', HV('other')), ('x-single', HV('one')), ('x-other', HV('other-again'))])
                request = httpmodel.Request(headers=hm, method=Opaque('reqmethod', rq), uri=uri, body=Opaque('incoming-body'), version=Opaque('HTTP/1.1'))
                if policy == 'unversioned': vp = ex.mk_enum('VersionPolicy', 'Unversioned')
                else:
                    vp = ex.mk_enum('VersionPolicy', 'Dynamic', [Ref(Cell(ex.mk_struct('ClientSpecifiesVersionInHeader', name='api-version', max_version=vmax.adt())))])
                server = ex.mk_struct_partial('DropshotState', config=ex.mk_struct_partial('ServerConfig', default_handler_task_mode=ex.mk_enum('HandlerTaskMode', mode)),
                                              router=rc.v, version_policy=vp, handler_waitgroup_worker=Opaque('worker'))
                co = ex.call_fn(self.F_handle, [Ref(Cell(server)), request, rid, Opaque('request-log'), remote])
                out = AM.drive(ex, Cell(co))
                return dict(out=out, calls=list(Rec.calls), spawned=Rec.spawned, request=request, server=server, hm=hm)
            assume = sum([e.assumptions() for e in eps], []) + rq.assumptions() + hv.wf() + vmax.wf() + [httpmodel.hv_ok(rid.term)]
            outs = ex.explore(h, assume)
            chk.paths += len(outs); n_paths += len(outs)
            ctx = dict(rq=rq, rid=rid, present=present, ascii_ok=ascii_ok, parses=parses, hv=hv, vmax=vmax, uri=uri, remote=remote, eps=eps, policy=policy, mode=mode,
                       assume=assume, tag=f'{tag}/{policy}/{mode}/k{k}')
            for pc, (kind, r) in outs:
                if kind != 'ok':
                    m = chk.prove(f'{ctx["tag"]}/no-panic', pc, z3.BoolVal(True), extra=assume)
                    if m is not None: chk.mismatches.append(f'http_request_handle panics ({tag}, {policy}, {mode}): {r}')
                    continue
                if r is None: continue
                assertions(chk, ex, pc, r, ctx)
        return n_paths


def resolved_version(ctx):
    """(condition that the version policy yields a version, the version routed at or None)"""
    if ctx['policy'] == 'unversioned': return z3.BoolVal(True), None
    good = z3.And(ctx['present'], ctx['ascii_ok'], ctx['parses'], zbool(v_le(ctx['hv'], ctx['vmax'])))
    return good, ctx['hv']


def matched_endpoint(ctx, e):
    good, v = resolved_version(ctx)
    tm = template_match(e.tmpl, ctx['rq'].segs)
    if tm is False: return False
    return zand(good, tm, ctx['rq'].method_is(e.method), e.contains(v))


def native_case(m, ctx):
    """the solver's model as a request to a real server built from the same table and version policy"""
    eps, hv, vmax = ctx['eps'], ctx['hv'], ctx['vmax']
    c = vermodel.concretise(m, [v for e in eps for v in e.versions()] + [hv, vmax])
    lits = sorted({s for e in eps for k, s in e.tmpl if k == 'lit'})
    req, _ = ctx['rq'].concretise(m, c, lits)
    ev = lambda t: bool(m.eval(t, model_completion=True))
    if ctx['policy'] == 'unversioned' or not ev(ctx['present']): header = None
    elif not ev(ctx['ascii_ok']): header = 'non-ascii'
    elif not ev(ctx['parses']): header = 'not-a-version'
    else: header = c[hv.name]
    return {'op': 'versioned_server', 'endpoints': [e.json(c) for e in eps], 'policy': ctx['policy'], 'max': c[vmax.name],
            'requests': [{'method': req['method'], 'path': req['path'], 'header': header}]}


def symbolic_outcome(ex, r):
    """(handler id or None, status of the error answer or None) of one explored path"""
    if r['calls']:
        return r['calls'][0][0], 200
    out, st = r['out'], None
    if out.discr == 1 and ex.variant_name(ex.payload(out)) == 'Dropshot':
        st = httpmodel.status_of(ex, ex.payload(out).fields[ex.payload(out).discr][0].v)
    return None, st


def native_agrees(chk, ex, m, ctx, r):
    """(case, native answer, whether the real server does what the explored path says)"""
    from mirsym.runner import replay
    case = native_case(m, ctx)
    nat = replay([case])[0]
    hid, st = symbolic_outcome(ex, r)
    resp = (nat.get('responses') or [{}])[0]
    same = bool(nat.get('registered')) and resp.get('handler') == hid and (hid is not None or resp.get('status') == st)
    return case, resp, same


def load_models():
    return MODELS + AM.MODELS + vermodel.MODELS + RL.ROUTER_MODELS + BASE_MODELS

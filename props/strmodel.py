"""Bounded-bytes string models (DESIGN.md §4, abstraction (b)): a &str is a list of symbolic
bytes (z3 BitVec 8) whose length is concrete on each path.  std semantics for split / trim /
case-insensitive compare on ASCII separators are exact on bytes because bytes >= 0x80 only
occur inside multi-byte UTF-8 sequences and never equal an ASCII character."""
import z3

from mirsym.core import Adt, Cell, Opaque, PVec, Ref, SB, SymStr, Tup, Unsupported, dv, zand, zor, znot, zbool
from mirsym.models import It, sb_bytes


def c8(ch):
    return z3.BitVecVal(ord(ch) if isinstance(ch, str) else ch, 8)


def b8(x):
    return x if z3.is_expr(x) else z3.BitVecVal(x, 8)


def is_hex(b):
    b = b8(b)
    return z3.Or(z3.And(z3.UGE(b, c8('0')), z3.ULE(b, c8('9'))), z3.And(z3.UGE(b, c8('a')), z3.ULE(b, c8('f'))),
                 z3.And(z3.UGE(b, c8('A')), z3.ULE(b, c8('F'))))


def hex_val(b):
    b = b8(b)
    return z3.If(z3.ULE(b, c8('9')), b - c8('0'), z3.If(z3.UGE(b, c8('a')), b - c8('a') + 10, b - c8('A') + 10))


def utf8_valid(bs):
    """RFC 3629 well-formedness of a byte list (concrete length) as a formula"""
    bs = [b8(b) for b in bs]
    n = len(bs); memo = {}
    def cont(b): return z3.And(z3.UGE(b, 0x80), z3.ULE(b, 0xBF))
    def v(i):
        if i == n: return z3.BoolVal(True)
        if i in memo: return memo[i]
        b = bs[i]; alts = [z3.And(z3.ULT(b, 0x80), v(i + 1))]
        if i + 1 < n: alts.append(z3.And(z3.UGE(b, 0xC2), z3.ULE(b, 0xDF), cont(bs[i + 1]), v(i + 2)))
        if i + 2 < n: alts.append(z3.And(z3.UGE(b, 0xE0), z3.ULE(b, 0xEF), cont(bs[i + 1]), cont(bs[i + 2]),
                                         z3.Implies(b == 0xE0, z3.UGE(bs[i + 1], 0xA0)), z3.Implies(b == 0xED, z3.ULE(bs[i + 1], 0x9F)), v(i + 3)))
        if i + 3 < n: alts.append(z3.And(z3.UGE(b, 0xF0), z3.ULE(b, 0xF4), cont(bs[i + 1]), cont(bs[i + 2]), cont(bs[i + 3]),
                                         z3.Implies(b == 0xF0, z3.UGE(bs[i + 1], 0x90)), z3.Implies(b == 0xF4, z3.ULE(bs[i + 1], 0x8F)), v(i + 4)))
        memo[i] = z3.Or(alts); return memo[i]
    return v(0)


def sep_pred(ex, pat):
    """separator predicate from a char, a &str of length 1, or a closure over char"""
    pat = dv(pat)
    if isinstance(pat, str) and len(pat) == 1:
        return lambda b: b8(b) == c8(pat)
    from mirsym.core import Closure, FnItem
    if isinstance(pat, (Closure, FnItem)):
        return lambda b: zbool(ex.call_closure(pat, [b8(b)]))
    raise Unsupported(f'split pattern {pat!r}')


def m_split(ex, args, callee):
    s = dv(args[0])
    if isinstance(s, str):
        pat = dv(args[1])
        if isinstance(pat, str): return It('list', s.split(pat))
        s = SB(list(s.encode()))
    if not isinstance(s, SB): raise Unsupported(f'split of {s!r}')
    pred = sep_pred(ex, args[1])
    segs, cur = [], []
    for b in s.bs:
        if ex.truth(pred(b)): segs.append(SB(cur)); cur = []
        else: cur.append(b)
    segs.append(SB(cur))
    return It('list', segs)


def m_percent_decode_str(ex, args, callee):
    return Opaque('percent_decode', dv(args[0]))


def percent_decode(ex, s):
    """exactly the percent_encoding crate's behaviour: %XY with hex X,Y -> one byte, anything else literal"""
    bs = sb_bytes(s)
    out, i = [], 0
    while i < len(bs):
        if i + 2 < len(bs) and ex.truth(z3.And(b8(bs[i]) == c8('%'), is_hex(bs[i + 1]), is_hex(bs[i + 2]))):
            out.append(z3.simplify(hex_val(bs[i + 1]) * 16 + hex_val(bs[i + 2]))); i += 3
        else:
            out.append(bs[i]); i += 1
    return out


def m_decode_utf8(ex, args, callee):
    out = percent_decode(ex, args[0].payload)
    if ex.truth(utf8_valid(out)): return ex.ok(SB(out))
    return ex.err(Opaque('Utf8Error'))


def m_decode_utf8_lossy(ex, args, callee):
    out = percent_decode(ex, args[0].payload)
    if ex.truth(utf8_valid(out)): return SB(out)
    raise Unsupported('decode_utf8_lossy on invalid UTF-8 (replacement characters not modelled)')


def m_from_utf8_lossy(ex, args, callee):
    """String::from_utf8_lossy: the same bytes when they are well-formed UTF-8, otherwise different bytes (U+FFFD inserted)"""
    src = dv(args[0])
    bs = sb_bytes(src)
    if ex.truth(utf8_valid(bs)): return src
    return Opaque('lossy-utf8-of', src)


def ascii_lower(b):
    b = b8(b)
    return z3.If(z3.And(z3.UGE(b, c8('A')), z3.ULE(b, c8('Z'))), b + 32, b)


def m_eq_ignore_ascii_case(ex, args, callee):
    a, b = sb_bytes(dv(args[0])), sb_bytes(dv(args[1]))
    if len(a) != len(b): return False
    return zand(*[ascii_lower(x) == ascii_lower(y) for x, y in zip(a, b)])


def m_to_lowercase(ex, args, callee):
    s = dv(args[0])
    if isinstance(s, str): return s.lower()
    for b in s.bs:
        ex.assume(z3.ULT(b8(b), 0x80)) if False else None
    return SB([z3.simplify(ascii_lower(b)) for b in s.bs])


def is_ws(b):
    b = b8(b)
    # char::is_whitespace restricted to one-byte characters: TAB LF VT FF CR SP (U+0085/U+00A0 are two bytes in UTF-8)
    return z3.Or(b == 0x20, z3.And(z3.UGE(b, 0x09), z3.ULE(b, 0x0D)))


def m_trim_end(ex, args, callee):
    s = dv(args[0])
    if isinstance(s, str): return s.rstrip()
    if not isinstance(s, SB):
        from mirsym.models import m_str_trim_opaque
        return m_str_trim_opaque(ex, args, 'trim_end')
    bs = list(s.bs)
    while bs and ex.truth(is_ws(bs[-1])): bs.pop()
    return SB(bs)


def m_trim_start(ex, args, callee):
    s = dv(args[0])
    if isinstance(s, str): return s.lstrip()
    if not isinstance(s, SB):
        from mirsym.models import m_str_trim_opaque
        return m_str_trim_opaque(ex, args, 'trim_start')
    bs = list(s.bs)
    while bs and ex.truth(is_ws(bs[0])): bs.pop(0)
    return SB(bs)


def m_trim(ex, args, callee):
    if not isinstance(dv(args[0]), (SB, str)):
        from mirsym.models import m_str_trim_opaque
        return m_str_trim_opaque(ex, args, 'trim')
    return m_trim_end(ex, [m_trim_start(ex, args, callee)], callee)


def m_find_char(ex, args, callee):
    s = dv(args[0])
    if isinstance(s, str):
        i = s.find(args[1]); return ex.some(len(s[:i].encode())) if i >= 0 else ex.none()
    pred = sep_pred(ex, args[1])
    for i, b in enumerate(s.bs):
        if ex.truth(pred(b)): return ex.some(i)
    return ex.none()


def m_split_once(ex, args, callee):
    s = dv(args[0])
    if isinstance(s, str): s = SB(list(s.encode()))
    pred = sep_pred(ex, args[1])
    for i, b in enumerate(s.bs):
        if ex.truth(pred(b)):
            return ex.some(Tup([Cell(SB(s.bs[:i])), Cell(SB(s.bs[i + 1:]))]))
    return ex.none()


def m_str_index(ex, args, callee):
    s, r = dv(args[0]), args[1]
    if isinstance(s, SymStr):
        from mirsym import models as _M
        return _M.m_str_index(ex, args, callee)
    f = [c.v for c in r.fields[None]]
    if isinstance(s, str):
        b = s.encode()
        if 'RangeFrom' in callee: return b[f[0]:].decode()
        if 'RangeTo' in callee: return b[:f[0]].decode()
        return b[f[0]:f[1]].decode()
    if 'RangeFrom' in callee: return SB(s.bs[f[0]:])
    if 'RangeTo' in callee: return SB(s.bs[:f[0]])
    return SB(s.bs[f[0]:f[1]])


def m_parse_uint(ex, args, callee):
    """str::parse::<uN>() on a bounded-bytes string: optional '+', then ASCII digits, value must fit"""
    import re
    bits = int(re.search(r'parse::<u(\d+|size)>', callee).group(1).replace('size', '64'))
    s = dv(args[0])
    if isinstance(s, str):
        try:
            v = int(s) if re.match(r'^\+?\d+$', s) else None
        except ValueError:
            v = None
        return ex.ok(v) if v is not None and v < (1 << bits) else ex.err(Opaque('ParseIntError'))
    bs = list(s.bs)
    if bs and ex.truth(b8(bs[0]) == c8('+')): bs = bs[1:]
    if not bs: return ex.err(Opaque('ParseIntError'))
    if len(bs) > 6: raise Unsupported('parse::<uN> of a long symbolic string')
    val = z3.BitVecVal(0, 64)
    for b in bs:
        if not ex.truth(z3.And(z3.UGE(b8(b), c8('0')), z3.ULE(b8(b), c8('9')))): return ex.err(Opaque('ParseIntError'))
        val = val * 10 + z3.ZeroExt(56, b8(b) - c8('0'))
    val = z3.simplify(val)
    if bits < 64 and not ex.truth(z3.ULT(val, 1 << bits)): return ex.err(Opaque('ParseIntError'))
    return ex.ok(z3.simplify(z3.Extract(bits - 1, 0, val)) if bits < 64 else val)


MODELS = [
    (r'<impl str>::parse::<u(8|16|32|64|size)>$', m_parse_uint),
    (r'<impl str>::split::<', m_split),
    (r'^percent_decode_str$|percent_encoding::percent_decode_str$', m_percent_decode_str),
    (r'PercentDecode::<.*>::decode_utf8$', m_decode_utf8),
    (r'PercentDecode::<.*>::decode_utf8_lossy$', m_decode_utf8_lossy),
    (r'String::from_utf8_lossy$', m_from_utf8_lossy),
    (r'<impl str>::bytes$|String::bytes$', lambda ex, a, c: It('list', [b8(b) for b in sb_bytes(dv(a[0]))])),
    (r'Cow::<.*str>::into_owned$|<Cow<.*str> as ToString>::to_string$', lambda ex, a, c: dv(a[0])),
    (r'<Cow<.*> as Deref>::deref$|Cow::<.*>::into_owned$', lambda ex, a, c: dv(a[0])),
    (r'<impl str>::eq_ignore_ascii_case$', m_eq_ignore_ascii_case),
    (r'<impl str>::to_lowercase$|<impl str>::to_ascii_lowercase$', m_to_lowercase),
    (r'<impl str>::trim_end$', m_trim_end), (r'<impl str>::trim_start$', m_trim_start), (r'<impl str>::trim$', m_trim),
    (r'<impl str>::find::<', m_find_char),
    (r'<impl str>::split_once::<', m_split_once),
    (r'str as Index<', m_str_index),
]

"""C03 — Request paths are normalised once and unsafe paths never reach a handler.

Part A: router::input_path_to_segments (and its closures) executed from MIR on a raw path of N
symbolic bytes (every length <= bound, every byte 0x01..0xFF, raw path valid UTF-8 because it is
a &str) and compared, path by path, with a reference normaliser evaluated *under the path
condition* (its branches are decided by the solver; an undecided branch splits the obligation).
Part B: lookup_route with the real input_path_to_segments on wildcard / variable routes, then
the MapValue accessors the Path extractor uses (as_value / as_seq): what a handler receives is
exactly the reference's segments, never "", "." or "..", and a segment error is a 400."""
import multiprocessing as mp
import os
import time
import traceback

import z3

from mirsym import mir
from mirsym.core import Adt, Cell, Opaque, Panic, PVec, Ref, SB, SymStr, StrSort, Tup, Unsupported, dv, zand, zor, znot, zbool
from mirsym.models import BASE_MODELS, It, sb_bytes
from mirsym.runner import Check, Inconclusive, replay, replay_bin
from props import httpmodel, routerlib as RL, strmodel, vermodel
from props.strmodel import b8, c8, hex_val, is_hex, utf8_valid


class NeedSplit(Exception):
    def __init__(self, cond): self.cond = cond


class Decider:
    """decides reference branches from the path condition; raises NeedSplit when pc leaves it open"""
    def __init__(self, pc):
        self.s = z3.Solver(); self.s.add(pc)
        self.calls = 0
    def feasible(self):
        return self.s.check() == z3.sat
    def __call__(self, cond):
        if isinstance(cond, bool): return cond
        cond = z3.simplify(cond)
        if z3.is_true(cond): return True
        if z3.is_false(cond): return False
        self.calls += 1
        self.s.push(); self.s.add(z3.Not(cond)); r1 = self.s.check(); self.s.pop()
        if r1 == z3.unsat: return True
        self.s.push(); self.s.add(cond); r2 = self.s.check(); self.s.pop()
        if r2 == z3.unsat: return False
        if z3.unknown in (r1, r2): raise Inconclusive('solver unknown while deciding a reference branch')
        raise NeedSplit(cond)


def reference(bs, decide):
    """the statement's normaliser: split on '/', drop empty pieces, decode each piece exactly once,
    refuse '.' / '..' (after decoding) and invalid UTF-8.  -> ('err', why) | ('ok', [[bytes],...])"""
    pieces, cur = [], []
    for b in bs:
        if decide(b8(b) == c8('/')):
            pieces.append(cur); cur = []
        else:
            cur.append(b)
    pieces.append(cur)
    out = []
    for p in pieces:
        if not p: continue
        dec, i = [], 0
        while i < len(p):
            if i + 2 < len(p) and decide(z3.And(b8(p[i]) == c8('%'), is_hex(p[i + 1]), is_hex(p[i + 2]))):
                dec.append(z3.simplify(hex_val(p[i + 1]) * 16 + hex_val(p[i + 2]))); i += 3
            else:
                dec.append(p[i]); i += 1
        if len(dec) == 1 and decide(b8(dec[0]) == c8('.')): return ('err', 'dot')
        if len(dec) == 2 and decide(z3.And(b8(dec[0]) == c8('.'), b8(dec[1]) == c8('.'))): return ('err', 'dotdot')
        if not decide(utf8_valid(dec)): return ('err', 'utf8')
        out.append(dec)
    return ('ok', out)


def seg_bytes(v):
    v = dv(v)
    if isinstance(v, SB): return v.bs
    if isinstance(v, str): return list(v.encode())
    raise Unsupported(f'segment {v!r}')


def same_lists(a, b):
    """formula: two lists of byte lists are equal (shapes are concrete)"""
    if len(a) != len(b): return False
    conds = []
    for x, y in zip(a, b):
        if len(x) != len(y): return False
        conds += [b8(p) == b8(q) for p, q in zip(x, y)]
    return zand(*conds)


def prefer_wire(bs):
    """prefer counterexamples that can be sent as an HTTP/1.1 request target (origin-form, visible ASCII)"""
    if not bs: return []
    safe = [z3.And(z3.UGE(b, 0x21), z3.ULE(b, 0x7e), *[b != ord(ch) for ch in '"<>\\^`{|}#?']) for b in bs]
    return [bs[0] == ord('/')] + safe


def model_bytes(m, bs):
    return [m.eval(b8(b), model_completion=True).as_long() for b in bs]


G = {}


def part_a(sub, ex, N):
    """all raw paths of exactly N bytes"""
    F = G['F_segs']
    bs = [z3.BitVec(f'p{i}', 8) for i in range(N)]
    assume = [b != 0 for b in bs] + [utf8_valid(bs)]
    def h(ex):
        ip = Adt('InputPath', 0, {None: [Cell(SB(bs))]})
        return ex.call_fn(F, [Ref(Cell(ip))])
    outs = ex.explore(h, assume)
    sub.paths += len(outs)
    n_ok = n_err = 0
    for pc, (kind, res) in outs:
        if kind != 'ok':
            m = sub.prove(f'A/N{N}/no-panic', pc, z3.BoolVal(True))
            report(sub, m, bs, f'input_path_to_segments panicked: {res}', 'panic')
            continue
        if res.discr == 0:
            got = ('ok', [seg_bytes(c.v) for c in dv(ex.payload(res)).items]); n_ok += 1
        else:
            got = ('err', None); n_err += 1
        prove_under(sub, bs, list(pc), got, N)
    return n_ok, n_err


def prove_under(sub, bs, pc, got, N, depth=0):
    d = Decider(pc)
    if depth and not d.feasible(): return
    try:
        spec = reference(bs, d)
    except NeedSplit as ns:
        if depth > 12: raise Inconclusive('reference split depth')
        prove_under(sub, bs, pc + [ns.cond], got, N, depth + 1)
        prove_under(sub, bs, pc + [z3.Not(ns.cond)], got, N, depth + 1)
        return
    if spec[0] != got[0]:
        m = sub.prove(f'A/N{N}/outcome-{got[0]}-vs-spec-{spec[0]}', pc, z3.BoolVal(True))
        if got[0] == 'ok':
            report(sub, m, bs, f'path accepted but the statement refuses it ({spec[1]})', 'accepted-unsafe:' + spec[1])
        else:
            report(sub, m, bs, 'path refused but the statement accepts it', 'refused-safe')
        return
    if spec[0] == 'ok':
        eq = same_lists(spec[1], got[1])
        m = sub.prove(f'A/N{N}/segments-equal-reference', pc, znot(zbool(eq)))
        if m is not None:
            report(sub, m, bs, 'delivered segments differ from decode-once of the non-empty pieces', 'wrong-segments')
        # the "consequently" clause, stated directly on the code's output
        bad = []
        for s in got[1]:
            if len(s) == 0: bad.append(z3.BoolVal(True))
            if len(s) == 1: bad.append(b8(s[0]) == c8('.'))
            if len(s) == 2: bad.append(z3.And(b8(s[0]) == c8('.'), b8(s[1]) == c8('.')))
        m = sub.prove(f'A/N{N}/no-dot-or-empty-segment', pc, z3.Or(bad) if bad else z3.BoolVal(False))
        if m is not None:
            report(sub, m, bs, 'a delivered segment is empty, "." or ".."', 'dot-segment-delivered')
    else:
        sub.prove(f'A/N{N}/refused-as-specified', pc, z3.BoolVal(False))


def rust_debug_strings(s):
    """the string literals inside a Rust Debug rendering such as `Components(["a/b", "c"])`"""
    out, i = [], 0
    while i < len(s):
        if s[i] != '"': i += 1; continue
        i += 1; cur = []
        while s[i] != '"':
            if s[i] == '\\':
                n = s[i + 1]
                if n == 'u':
                    j = s.index('}', i); cur.append(chr(int(s[i + 3:j], 16))); i = j + 1; continue
                cur.append({'n': '\n', 'r': '\r', 't': '\t', '0': '\0'}.get(n, n)); i += 2
            else:
                cur.append(s[i]); i += 1
        out.append(''.join(cur)); i += 1
    return out


def adapt(nat, route):
    """normalise a replay result: segments from lookup_route, handler_saw from the live server when available"""
    if 'status' not in nat: return nat
    order = {'wild': ['r'], 'var': ['x'], 'var2': ['x', 'y']}[route]
    segs = []
    for k in order:
        if k in nat.get('variables_debug', {}):
            segs += [list(x.encode()) for x in rust_debug_strings(nat['variables_debug'][k])]
    nat['segments'] = segs
    if nat.get('handler_saw') is None and nat['status'] == 200:
        nat['handler_saw'] = segs; nat['handler_saw_from'] = 'lookup_route (raw path not expressible as an HTTP/1.1 request target)'
    elif nat.get('wire_status') not in (None, nat['status']):
        nat['status'] = nat['wire_status']
    return nat


def native_path(raw, route='wild'):
    case = {'op': 'path', 'raw': raw, 'route': route}
    return adapt(replay([case])[0], route), case


def py_reference(raw):
    """concrete evaluation of the reference (for comparing with the native result)"""
    def decide(c):
        if isinstance(c, bool): return c
        r = z3.simplify(c)
        return z3.is_true(r)
    return reference([z3.BitVecVal(b, 8) for b in raw], decide)


def spec_concrete(raw):
    r = py_reference(raw)
    if r[0] == 'err': return ('err', r[1])
    return ('ok', [bytes(z3.simplify(b8(x)).as_long() for x in seg) for seg in r[1]])


def report(sub, m, bs, what, role):
    if m is None: return
    raw = model_bytes(m, bs)
    nat, case = native_path(raw)
    spec = spec_concrete(raw)
    if spec[0] == 'err':
        repro = nat.get('status') != 400
    else:
        repro = nat.get('status') != 200 or [bytes(x) for x in nat.get('segments', [])] != spec[1]
    sub.counterexample(f'{what}: raw path {bytes(raw)!r} -> native {nat}; statement: {spec}', case, repro, role=role)


def part_b(sub, ex, N, route):
    """lookup_route with the real normaliser + what the Path extractor's accessors hand out"""
    R = G['R']
    bs = [z3.BitVec(f'q{i}', 8) for i in range(N)]
    assume = [b != 0 for b in bs] + [utf8_valid(bs)]
    tmpl = {'wild': '/{r:.*}', 'var': '/{x}', 'var2': '/{x}/{y}'}[route]
    eps = [RL.Endpoint(0, 'GET', tmpl, 'All')]
    F_as_value, F_as_seq = G['F_as_value'], G['F_as_seq']
    def h(ex):
        rc, rej, msg = R.build(ex, eps, [0])
        if rej is not None: raise Unsupported('registration failed: ' + str(msg))
        ip = Adt('InputPath', 0, {None: [Cell(SB(bs))]})
        res = ex.call_fn(R.F_lookup, [Ref(rc), Ref(Cell(Opaque('method', 'GET'))), ip, ex.none()])
        if res.discr == 1:
            return ('err', httpmodel.status_of(ex, ex.payload(res)))
        md = ex.field(ex.payload(res), 'endpoint').v
        delivered = {}
        for name, cell in ex.field(md, 'variables').v.items:
            vv = cell.v
            if ex.variant_name(vv) == 'String':
                r = ex.call_fn(F_as_value, [Ref(cell)])
                if r.discr != 0: raise Panic('as_value failed on a String variable')
                delivered[name] = [seg_bytes(ex.payload(r))]
            else:
                r = ex.call_fn(F_as_seq, [Ref(cell)])
                if r.discr != 0: raise Panic('as_seq failed on a Components variable')
                it = dv(ex.payload(r))
                delivered[name] = [seg_bytes(x) for x in it.remaining(ex)]
        return ('ok', delivered)
    outs = ex.explore(h, assume)
    sub.paths += len(outs)
    for pc, (kind, res) in outs:
        if kind != 'ok':
            m = sub.prove(f'B/{route}/N{N}/no-panic', pc, z3.BoolVal(True), prefer=prefer_wire(bs))
            report_b(sub, m, bs, route, f'lookup/extraction panicked: {res}', 'panic-b')
            continue
        prove_under_b(sub, bs, list(pc), res, N, route)


def part_d(sub, ex, route):
    """lookup_route on a raw path of ANY length that the normaliser refuses (part A: the refusal contract): a 400, never a panic.
    The path text is opaque with a symbolic byte length and symbolic character boundaries (slicing it can panic)."""
    R = G['R']
    tmpl = {'wild': '/{r:.*}', 'var': '/{x}', 'var2': '/{x}/{y}'}[route]
    eps = [RL.Endpoint(0, 'GET', tmpl, 'All')]
    text = SymStr(z3.Const('long_request_path', StrSort))
    refuse = [m for m in RL.ROUTER_MODELS if 'input_path_to_segments' in m[0]]
    def h(ex):
        rc, rej, msg = R.build(ex, eps, [0])
        if rej is not None: raise Unsupported('registration failed: ' + str(msg))
        RL.Ctx.cur_segments = None
        ip = Adt('InputPath', 0, {None: [Cell(text)]})
        res = ex.call_fn(R.F_lookup, [Ref(rc), Ref(Cell(Opaque('method', 'GET'))), ip, ex.none()])
        return ('err', httpmodel.status_of(ex, ex.payload(res))) if res.discr == 1 else ('ok', None)
    ex.models = refuse + ex.models
    try:
        outs = ex.explore(h, [])
    finally:
        ex.models = ex.models[len(refuse):]
    sub.paths += len(outs)
    def native_long():
        tails = [b'/..', b'/%ff']
        raws = [b'/' + b'a' * k + '\u00e9\u20ac'.encode() * 3 + b'a' * pad + t for k in (13, 29, 30, 61, 62, 93, 94, 125, 126, 253, 254, 509, 1021) for pad in (0, 40) for t in tails]
        cases = [{'op': 'path', 'raw': list(r), 'route': route} for r in raws]
        res = [adapt(r, route) for r in replay(cases)]
        bad = [(bytes(c['raw'])[:20] + b'...', len(c['raw']), n_.get('status')) for c, n_ in zip(cases, res) if n_.get('status') != 400]
        return cases, bad
    for pc, (kind, res) in outs:
        if kind != 'ok':
            m = sub.prove(f'D/{route}/refused-path-of-any-length/no-panic', pc, z3.BoolVal(True))
            if m is not None:
                cases, bad = native_long()
                sub.counterexample(f'lookup_route panics on a refused path of some length ({res}); native: refused paths of {len(cases)} lengths with multi-byte characters, '
                                   f'not answered 400: {bad[:4]}', cases[0] if not bad else next(c for c in cases if len(c['raw']) == bad[0][1]), bool(bad), role='long-refused-path')
            continue
        ok = res[0] == 'err' and res[1] == 400
        m = sub.prove(f'D/{route}/refused-path-of-any-length/is-400', pc, z3.BoolVal(not ok))
        if m is not None:
            cases, bad = native_long()
            sub.counterexample(f'a refused path is answered {res}; native: {bad[:4]}', cases[0], bool(bad), role='long-refused-path')
    if not outs: raise Inconclusive('vacuity: part D explored no path')


def prove_under_b(sub, bs, pc, got, N, route, depth=0):
    d = Decider(pc)
    if depth and not d.feasible(): return
    try:
        spec = reference(bs, d)
    except NeedSplit as ns:
        prove_under_b(sub, bs, pc + [ns.cond], got, N, route, depth + 1)
        prove_under_b(sub, bs, pc + [z3.Not(ns.cond)], got, N, route, depth + 1)
        return
    want_n = {'wild': None, 'var': 1, 'var2': 2}[route]
    if spec[0] == 'err':
        ok = got[0] == 'err' and got[1] == 400
        m = sub.prove(f'B/{route}/N{N}/unsafe-path-is-400', pc, z3.BoolVal(not ok), prefer=prefer_wire(bs))
        if m is not None: report_b(sub, m, bs, route, f'unsafe path answered {got}', 'unsafe-not-400')
        return
    segs = spec[1]
    if want_n is not None and len(segs) != want_n:
        ok = got[0] == 'err' and got[1] == 404
        m = sub.prove(f'B/{route}/N{N}/no-route-is-404', pc, z3.BoolVal(not ok))
        if m is not None: report_b(sub, m, bs, route, f'unrouted path answered {got}', 'unrouted')
        return
    if got[0] != 'ok':
        m = sub.prove(f'B/{route}/N{N}/safe-path-served', pc, z3.BoolVal(True), prefer=prefer_wire(bs))
        report_b(sub, m, bs, route, f'safe path answered {got}', 'safe-refused')
        return
    flat = got[1].get('r') if route == 'wild' else [x for n in ('x', 'y') if n in got[1] for x in got[1][n]]
    eq = same_lists(segs, flat if flat is not None else [])
    m = sub.prove(f'B/{route}/N{N}/handler-receives-reference-segments', pc, znot(zbool(eq)), prefer=prefer_wire(bs))
    if m is not None: report_b(sub, m, bs, route, 'handler receives segments that differ from decode-once of the pieces', 'wrong-delivery')


def report_b(sub, m, bs, route, what, role):
    if m is None: return
    raw = model_bytes(m, bs)
    nat, case = native_path(raw, route)
    spec = spec_concrete(raw)
    want_n = {'wild': None, 'var': 1, 'var2': 2}[route]
    if spec[0] == 'err': repro = nat.get('status') != 400
    elif want_n is not None and len(spec[1]) != want_n: repro = nat.get('status') != 404
    else: repro = nat.get('status') != 200 or [bytes(x) for x in nat.get('handler_saw', [])] != spec[1]
    sub.counterexample(f'{what}: raw path {bytes(raw)!r} on route {route} -> native {nat}; statement: {spec}', case, repro, role=role)


def _worker(task):
    chk, ex = G['chk'], G['ex']
    sub = chk.fork()
    t0 = time.time()
    try:
        if task[0] == 'A':
            ok, err = part_a(sub, ex, task[1])
            sub.samples.append({'part': 'A', 'N': task[1], 'paths': sub.paths, 'ok_paths': ok, 'err_paths': err})
        elif task[0] == 'D':
            part_d(sub, ex, task[1])
            sub.samples.append({'part': 'D', 'route': task[1], 'paths': sub.paths})
        else:
            part_b(sub, ex, task[1], task[2])
            sub.samples.append({'part': 'B', 'N': task[1], 'route': task[2], 'paths': sub.paths})
    except Inconclusive as e:
        return {'inconclusive': f'{task}: {e}'}
    except Unsupported as e:
        return {'inconclusive': f'{task}: unsupported: {e}'}
    except Exception as e:
        return {'inconclusive': f'{task}: internal error {e!r} {traceback.format_exc()[-1500:]}'}
    out = sub.summary(); out['task_s'] = time.time() - t0; out['task'] = task
    return out


def witnesses(chk):
    """translator validation: fixed corpus + reference evaluated concretely vs the real code"""
    corpus = [b'/', b'/a', b'//a///b/', b'/a%2Fb', b'/%41', b'/%2e', b'/%2E%2e', b'/.%2e', b'/..', b'/.', b'/a/./b', b'/%ff', b'/%C3%A9',
              b'/a%', b'/a%4', b'/%zz', b'/%25%32%65', b'/...', b'/.a', b'/\xc3\xa9', b'/a/%2e%2e/b', b'/%2f', b'/a%00b'.replace(b'%00', b'%01')]
    cases = [{'op': 'path', 'raw': list(r), 'route': 'wild'} for r in corpus]
    res = [adapt(r, 'wild') for r in replay(cases)]
    for raw, nat in zip(corpus, res):
        spec = spec_concrete(list(raw))
        chk.replayed += 1
        good = (nat.get('status') == 400) if spec[0] == 'err' else (nat.get('status') == 200 and [bytes(x) for x in nat['handler_saw']] == spec[1])
        if not good:
            # the real code disagrees with the statement's reference on a concrete input: that is a violation, found without the solver
            chk.counterexample(f'raw path {raw!r}: native {nat}, statement {spec}', {'op': 'path', 'raw': list(raw), 'route': 'wild'}, True,
                               role='corpus')
        if len(chk.samples) < 6: chk.samples.append({'raw': raw.decode('latin1'), 'native': nat})


def run(tier, replay_file=None):
    chk = Check('C03', tier)
    ex = chk.load(strmodel.MODELS + vermodel.MODELS + [m for m in RL.ROUTER_MODELS if 'input_path_to_segments' not in m[0]] + BASE_MODELS,
                  loop_bound=200)
    ex.const_models.append(httpmodel.const_model)
    G.update(chk=chk, ex=ex, R=RL.Router(chk, ex), F_segs=mir.find(ex.fns, r'(^|::)input_path_to_segments$'))
    for n in mir.find(ex.fns, r'router::<impl at [^>]*>::as_value$', unique=False) + mir.find(ex.fns, r'router::<impl at [^>]*>::as_seq$', unique=False):
        if 'VariableValue' in ex.fns[n].locals.get('_1', ''):
            G['F_' + n.rsplit('::', 1)[1]] = n
    replay_bin()
    NA = 8 if tier == "quick" else 10
    NB = 6 if tier == "quick" else 8
    if os.environ.get('VERIF_C03_NA'): NA = int(os.environ['VERIF_C03_NA'])
    tasks = [('A', n) for n in range(NA, -1, -1)] + [('B', n, r) for n in range(NB, -1, -1) for r in ('wild', 'var', 'var2')] + [('D', r) for r in ('wild', 'var')]
    chk.bounds = {'raw_path_bytes_part_A': f'every length 0..{NA}, every byte 0x01..0xFF (valid UTF-8 as a whole)',
                  'raw_path_bytes_part_B': f'every length 0..{NB}; routes /{{r:.*}}, /{{x}}, /{{x}}/{{y}}',
                  'raw_path_part_D': 'a refused path of any byte length (opaque text, symbolic length and character boundaries) through lookup_route',
                  'outside': 'longer paths; what hyper / http::Uri accept as a request target'}
    chk.assumptions = ['the raw path is a &str (valid UTF-8) without NUL',
                       'percent_encoding::percent_decode_str(..).decode_utf8() decodes %XY (hex, either case) and validates UTF-8 '
                       '(model in props/strmodel.py, validated against the real crate by the corpus and every replayed model)',
                       'str::split(char) / filter / map / collect have their documented semantics']
    witnesses(chk)
    nproc = int(os.environ.get('VERIF_JOBS', '16'))
    incon = []
    with mp.get_context('fork').Pool(nproc) as pool:
        for res in pool.imap_unordered(_worker, tasks, chunksize=1):
            if 'inconclusive' in res: incon.append(res['inconclusive']); continue
            chk.absorb(res)
    # ---- part C: from the router's variables to the typed `Path<T>` value: string variables (single and wildcard lists) reach the handler
    #      exactly as the router delivered them (from_map.rs from MIR, as in C09) - in particular never turned into '.', '..' or ''
    from props import c09
    n0 = len(chk.obligations)
    try:
        c09.part_from_map(chk, ex)
    except Unsupported as e:
        ex.unsupported_paths.append(f'part C (from_map): {e}')       # fail closed unless a replayed violation was found elsewhere
    chk.extra['from_map_obligations'] = len(chk.obligations) - n0
    if incon:
        rc = chk.finish('inconclusive run')
        if rc == 1:
            print(f'note: {len(incon)} task(s) inconclusive as well; first: {incon[0][-1200:]}')
            return 1
        raise Inconclusive(f'{len(incon)} task(s) inconclusive; first: {incon[0][-1200:]}')
    return chk.finish('one obligation per (raw length, execution path of the real code, reference case); non-trivial = distinct name')

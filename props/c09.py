"""C09 — Handlers receive exactly what the client sent (dropshot-owned decoding and context construction).

(1) server.rs::http_request_handle from MIR: the handler that runs is the matched endpoint's and its RequestContext carries this
    request's own method, URI, HTTP version, headers, peer address, request id and path variables (data-flow identity).
(2) from_map / MapDeserializer / MapMapAccess driven by a model of serde-derive's generated visitor: every struct field is decoded
    from the path variable of the same name; a wildcard yields its components in order.
(3) multipart boundary discovery.  (4) wire witnesses with echo handlers.
Outside: value-level correctness of serde_json / serde_urlencoded / multer; the concurrency half of the statement."""
import z3

from mirsym import mir
from mirsym.core import Adt, Cell, Opaque, Panic, PMap, PVec, Ref, SB, SymStr, Tup, Unsupported, dv, StrSort, zand, zor, znot, zbool
from mirsym.models import val_eq
from mirsym.runner import Check, Inconclusive, replay
from props import glue as G, httpmodel, routerlib as RL
from props.routerlib import Endpoint, expected_vars


def ok_response(ex):
    return ex.ok(httpmodel.Response(200, httpmodel.HMap([('content-type', httpmodel.HV('application/json'))]), Opaque('body', 'handler-output')))


def assert_context(chk, ex, pc, r, ctx):
    eps, rq, assume, tag = ctx['eps'], ctx['rq'], ctx['assume'], ctx['tag']
    calls = r['calls']
    any_match = zor(*[G.matched_endpoint(ctx, e) for e in eps])
    if not calls:
        m = chk.prove(f'{tag}/no-handler-only-if-nothing-matches', pc, zbool(any_match), extra=assume)
        if m is not None: chk.mismatches.append(f'{tag}: a matching request did not reach its handler ({r["out"]})')
        if r['out'].discr != 1:
            m = chk.prove(f'{tag}/no-handler-means-error', pc, z3.BoolVal(True), extra=assume)
            if m is not None: chk.mismatches.append(f'{tag}: no handler ran but the result is {r["out"]}')
        return
    good = len(calls) == 1
    hid, rqctx, req2 = calls[0]
    e = next((x for x in eps if x.id == hid), None)
    good = good and e is not None
    problems = []
    if good:
        info = dv(ex.field(rqctx, 'request').v)
        request = r['request']
        def same(a, b): return dv(a) is dv(b)
        def same_headers(a, b):
            """the same header lines (every value of every name, in order), whether or not the map object itself was copied"""
            a, b = dv(a), dv(b)
            if a is b: return True
            if not (hasattr(a, 'entries') and hasattr(b, 'entries')) or len(a.entries) != len(b.entries): return False
            def val(v): return getattr(v, 'content', v)
            return all(n1 == n2 and (v1 is v2 or val(v1) is val(v2) or (isinstance(val(v1), str) and val(v1) == val(v2))) for (n1, v1), (n2, v2) in zip(a.entries, b.entries))
        checks = {
            'method': same(ex.field(info, 'method').v, request.method),
            'uri': same(ex.field(info, 'uri').v, request.uri),
            'http-version': same(ex.field(info, 'version').v, request.version),
            'headers': same_headers(ex.field(info, 'headers').v, request.headers),
            'peer-address': same(ex.field(info, 'remote_addr').v, ctx['remote']),
            'request-id': isinstance(dv(ex.field(rqctx, 'request_id').v), SymStr) and dv(ex.field(rqctx, 'request_id').v).term.eq(ctx['rid'].term),
            'server-state': same(ex.field(rqctx, 'server').v, r['server']),
            'request-body-handed-to-extractors': dv(req2) is request,
        }
        problems = [k for k, v in checks.items() if not v]
        md = dv(ex.field(rqctx, 'endpoint').v)
        got = {k_: c.v for k_, c in dv(ex.field(md, 'variables').v).items}
        exp = expected_vars(e.tmpl, rq.segs)
        vbad = []
        if set(got) != set(exp): vbad.append(z3.BoolVal(True))
        else:
            for name, (kind_, val) in exp.items():
                vv = got[name]
                if kind_ == 'one':
                    vbad.append(z3.BoolVal(True) if ex.variant_name(vv) != 'String' else znot(zbool(val_eq(ex, ex.payload(vv), val))))
                else:
                    items = dv(ex.payload(vv)).items if ex.variant_name(vv) == 'Components' else None
                    if items is None or len(items) != len(val): vbad.append(z3.BoolVal(True))
                    else: vbad += [znot(zbool(val_eq(ex, c_.v, s_))) for c_, s_ in zip(items, val)]
        m = chk.prove(f'{tag}/handler-is-the-matched-endpoint-with-its-variables', pc,
                      z3.Or([znot(zbool(G.matched_endpoint(ctx, e)))] + vbad), extra=assume)
        if m is not None: chk.mismatches.append(f'{tag}: handler {hid} ran for a request it does not match / wrong variables {got}')
    m = chk.prove(f'{tag}/request-context-is-this-requests-own-data', pc, z3.BoolVal(not good or bool(problems)), extra=assume)
    if m is not None:
        # the same question to a real server: a handler reporting everything its context says about the request
        raw = ('PUT /ectx/solo0?s=sq0 HTTP/1.1\r\nHost: replay\r\nx-probe: solo-probe-0\r\nx-tag: alpha\r\nX-Tag: beta0\r\nx-other: o\r\nx-tag: gamma\r\nContent-Length: 0\r\n\r\n')
        case = {'op': 'echo', 'connections': [[{'raw': raw}]]}
        nat = replay([case])[0]
        g_ = (nat.get('connections') or [[{}]])[0]
        g_ = g_[0] if g_ else {}
        b_ = g_.get('body') or {}
        native_ok = g_.get('status') == 200 and b_.get('uri') == '/ectx/solo0?s=sq0' and b_.get('method') == 'PUT' and b_.get('probe') == 'solo-probe-0' and b_.get('tags') == ['alpha', 'beta0', 'gamma'] \
            and b_.get('header_lines') == 7 and b_.get('peer_port') == g_.get('client_port') and g_.get('x_request_id') == [b_.get('request_id')] and b_.get('path_id') == 'solo0'
        chk.counterexample(f'{tag}: the request context handed to the handler does not carry the request\'s own data ({problems or calls}); a real handler reports {b_}', case, not native_ok,
                           role='context:' + '+'.join(problems or ['calls']))


def part_context(chk, ex, tier):
    g = G.Glue(chk, ex)
    tables = [[Endpoint(0, 'GET', '/a/{x}', 'From'), Endpoint(1, 'PUT', '/a/{x}', 'All'), Endpoint(2, 'GET', '/b/{r:.*}', 'Until')]]
    if tier == 'thorough': tables.append([Endpoint(0, 'GET', '/{x}/{y}', 'FromUntil'), Endpoint(1, 'GET', '/', 'All')])
    n = 0
    for eps in tables:
        for policy in ('unversioned', 'dynamic'):
            if policy == 'unversioned': eps_ = [Endpoint(e.idx, e.method, e.path, 'All') for e in eps]
            else: eps_ = eps
            for mode in ('CancelOnDisconnect', 'Detached'):
                n += g.run(eps_, policy, mode, ok_response, assert_context, 'context')
    if n < 20: raise Inconclusive('vacuity: too few http_request_handle paths')
    chk.extra['http_request_handle_paths'] = n


def part_from_map(chk, ex):
    """path variables -> typed struct through from_map / MapDeserializer / MapMapAccess / MapSeqAccess"""
    from props import serdemodel as SM, c10
    from props.serdemodel import Ty
    SM.setup(ex)
    F_from_map = mir.find(ex.fns, r'^(from_map::)?from_map$')
    sx, s1, s2 = [SymStr(z3.Const(n, StrSort)) for n in ('var_x', 'comp_1', 'comp_2')]
    ny = c10.NumStr('var_y')
    shapes = [
        ('string+u32', {'x': ('one', sx), 'y': ('one', ny)}, Ty('struct', [('x', Ty('string')), ('y', Ty('u32'))])),
        ('swapped-decl-order', {'x': ('one', sx), 'y': ('one', ny)}, Ty('struct', [('y', Ty('i64')), ('x', Ty('string'))])),
        ('u64', {'y': ('one', ny)}, Ty('struct', [('y', Ty('u64'))])),
        ('i8', {'y': ('one', ny)}, Ty('struct', [('y', Ty('i8'))])),
        ('u16+i32', {'y': ('one', ny), 'x': ('one', ny)}, Ty('struct', [('x', Ty('u16')), ('y', Ty('i32'))])),
        ('undeclared-keys-before', {'a_extra': ('one', s1), 'b_extra': ('one', s2), 'x': ('one', sx)}, Ty('struct', [('x', Ty('string'))])),
        ('wildcard', {'r': ('many', [s1, s2]), 'x': ('one', sx)}, Ty('struct', [('x', Ty('string')), ('r', Ty('seq', Ty('string')))])),
        ('empty-wildcard', {'r': ('many', [])}, Ty('struct', [('r', Ty('seq', Ty('string')))])),
        ('option', {'x': ('one', sx)}, Ty('struct', [('x', Ty('option', Ty('string')))])),
        ('scalar-for-wildcard', {'r': ('many', [s1])}, Ty('struct', [('r', Ty('string'))])),
        ('seq-for-single', {'x': ('one', sx)}, Ty('struct', [('x', Ty('seq', Ty('string')))])),
    ]
    for name, variables, ty in shapes:
        def h(ex):
            SM.Env.target = ty
            mp = PMap()
            for k, (kind, val) in variables.items():
                if kind == 'one': mp.put(k, ex.mk_enum('VariableValue', 'String', [val]))
                else: mp.put(k, ex.mk_enum('VariableValue', 'Components', [PVec([Cell(v) for v in val])]))
            return ex.call_fn(F_from_map, [Ref(Cell(mp))])
        ex.models = SM.MODELS + [m for m in c10.MODELS if 'parse' in m[0] or 'trim' in m[0]] + ex.models
        try:
            outs = ex.explore(h, [])
        finally:
            ex.models = ex.models[len(SM.MODELS) + 2:]
        chk.paths += len(outs)
        n_ok = 0
        for pc, (k, r) in outs:
            if k != 'ok':
                m = chk.prove(f'from_map/{name}/no-panic', pc, z3.BoolVal(True))
                if m is not None: chk.mismatches.append(f'from_map panics on {name}: {r}')
                continue
            mismatch_shape = name in ('scalar-for-wildcard', 'seq-for-single')
            if r.discr == 1:
                # refusals: only a type mismatch (numeric field not numeric / out of range, sequence vs single value)
                ints = [fty.kind for _, fty in ty.arg if fty.kind in c10.INT_RANGE]
                if ints and not mismatch_shape:
                    lo, hi = max(c10.INT_RANGE[t][0] for t in ints), min(c10.INT_RANGE[t][1] for t in ints)
                    m = chk.prove(f'from_map/{name}/refused-only-for-ill-typed-value', pc, z3.And(ny.numeric, ny.val >= lo, ny.val <= hi))
                else:
                    m = chk.prove(f'from_map/{name}/refused-only-for-shape-mismatch', pc, z3.BoolVal(not mismatch_shape))
                if m is not None and name in c10.SCALAR_SLOT: c10.report_scalar(chk, m, name, ny, f'from_map refuses an in-range {name} path variable')
                elif m is not None and name == 'undeclared-keys-before':
                    case = {'op': 'whichpage', 'shape': 'extra+other', 'len': 40}
                    nat = replay([case])[0]
                    chk.counterexample(f'from_map refuses / loses a declared field when undeclared keys sort before it: {r} -> native first-page request {nat}', case,
                                       not nat.get('as_specified', False), role='from_map:' + name)
                elif m is not None: chk.mismatches.append(f'from_map refuses well-typed variables ({name}): {r}')
                continue
            n_ok += 1
            got = ex.payload(r).payload if isinstance(ex.payload(r), Opaque) and ex.payload(r).tag == 'decoded-struct' else None
            bad = [z3.BoolVal(got is None or mismatch_shape)]
            if got is not None and not mismatch_shape:
                for fname, fty in ty.arg:
                    kind, val = variables[fname]
                    g = got.get(fname)
                    if fty.kind == 'string': bad.append(z3.BoolVal(not (isinstance(g, SymStr) and g.term.eq(val.term))))
                    elif fty.kind == 'option': bad.append(z3.BoolVal(not (isinstance(g, tuple) and g[0] == 'some' and isinstance(g[1], SymStr) and g[1].term.eq(val.term))))
                    elif fty.kind == 'seq':
                        ok_ = isinstance(g, Opaque) and g.tag == 'decoded-seq' and len(g.payload) == len(val) and all(isinstance(a, SymStr) and a.term.eq(b.term) for a, b in zip(g.payload, val))
                        bad.append(z3.BoolVal(not ok_))
                    else:
                        bits = int(fty.kind[1:])
                        ok_shape = isinstance(g, Opaque) and g.tag == 'visited' and g.payload[0] == fty.kind and z3.is_bv(g.payload[1])
                        bad.append(z3.BoolVal(True) if not ok_shape else g.payload[1] != z3.Int2BV(ny.val, bits))
            m = chk.prove(f'from_map/{name}/each-field-from-its-own-variable', pc, z3.Or(bad))
            if m is not None and name in c10.SCALAR_SLOT: c10.report_scalar(chk, m, name, ny, f'from_map delivered {got} for a {name} path variable')
            elif m is not None and name in ('string+u32', 'swapped-decl-order', 'option'):
                # string path variables with content that a careless conversion would alter (surrounding whitespace, case, empty-looking)
                from urllib.parse import quote
                fam = [' x ', '\tx', 'x\n', '.. ', ' .', 'MiXeD', '0x1F', '+1', 'a%b']
                conns = [[{'raw': f'GET /e/{quote(s_, safe="")}/7 HTTP/1.1\r\nHost: replay\r\n\r\n'}] for s_ in fam]
                nat = replay([{'op': 'echo', 'connections': conns}])[0]
                got_n = [((c_[0].get('body') or {}).get('s') if c_ else None) for c_ in nat.get('connections', [])]
                chk.counterexample(f'from_map ({name}) decoded {got} from {variables}; a real handler receives {got_n} for path segments {fam}', {'op': 'echo', 'connections': conns},
                                   got_n != fam, role='from_map:' + name)
            elif m is not None: chk.mismatches.append(f'from_map ({name}) decoded {got} from {variables}')
        if not n_ok and name not in ('scalar-for-wildcard', 'seq-for-single'): raise Inconclusive(f'vacuity: from_map never succeeds on {name}; {ex.unsupported_paths[-1:]}')


def part_multipart(chk, ex):
    """MultipartBody::from_request: the boundary handed to multer is the content type's boundary parameter (data-flow); errors are 4xx"""
    from props import asyncmodel as AM, c10
    f = ex.fns
    F = [n for n in mir.find(f, r'extractor::body::<impl at [^>]*>::from_request$', unique=False) if 'MultipartBody' in (f[n].ret or '')][0]
    present, ascii_ok, has_boundary = z3.Bools('ct_present ct_ascii ct_has_boundary')
    ct_text = SymStr(z3.Const('content_type_text', StrSort))
    seen = {}
    def m_parse_boundary(ex, a, c):
        if ex.truth(has_boundary): return ex.ok(Opaque('rfc2046-boundary-of', dv(a[0])))
        return ex.err(Opaque('multer::Error'))
    def m_multipart_new(ex, a, c):
        seen['boundary'] = dv(a[1]); seen['stream'] = a[0]
        return Opaque('multipart', (a[0], dv(a[1])))
    local = [(r'^(multer::)?parse_boundary::', m_parse_boundary), (r'Multipart::<.*>::new::<|^multer::Multipart::new', m_multipart_new),
             (r'Body::into_data_stream$', lambda ex, a, c: Opaque('data-stream', a[0]), True)] + [m for m in c10.MODELS if 'into_parts' in m[0]]
    import glob, os, re as _re
    from mirsym.runner import REPO
    hv_ = _re.search(r'name = "http"\nversion = "([^"]+)"', open(os.path.join(REPO, 'Cargo.lock')).read()).group(1)
    for p_ in glob.glob(os.path.expanduser(f'~/.cargo/registry/src/*/http-{hv_}/src/request.rs')): ex.L.add_source(p_, only={'Parts'})
    chunk_len, limit = z3.BitVec('chunk_len', 64), z3.BitVec('body_limit', 64)
    def h(ex):
        seen.clear()
        AM.Yielder.emitted = []
        hm = httpmodel.HMap([('content-type', httpmodel.HV(ct_text, ascii_ok, present))])
        chunk = AM.Bytes('the-request-body', chunk_len)
        body = AM.Body([('data', chunk)])
        req = httpmodel.Request(headers=hm, body=body)
        server = ex.mk_struct_partial('DropshotState', config=ex.mk_struct_partial('ServerConfig', default_request_body_max_bytes=limit))
        rqctx = ex.mk_struct_partial('RequestContext', server=Ref(Cell(server)), endpoint=ex.mk_struct_partial('RequestEndpointMetadata', request_body_max_bytes=ex.none()))
        fut = ex.call_fn(F, [Ref(Cell(rqctx)), req])
        cell = AM.pinned(fut)
        if isinstance(cell.v, Ref): cell = cell.v.cell
        r = AM.drive(ex, cell)
        sn = dict(seen)
        st = sn.get('stream')
        if r.discr == 0 and st is not None:
            st = dv(st)
            if isinstance(st, Opaque) and st.tag == 'data-stream': sn['reads_this_body'] = dv(st.payload) is body
            else:
                item = AM.stream_next(ex, st)
                sn['reads_this_body'] = item is not None and item.discr == 0 and ex.payload(item) is chunk
        return r, sn
    ex.models = local + ex.models
    try:
        outs = ex.explore(h, [z3.ULE(chunk_len, limit)])
    finally:
        ex.models = ex.models[len(local):]
    chk.paths += len(outs)
    kinds = set()
    for pc, (k, rr) in outs:
        if k != 'ok':
            m = chk.prove('multipart/no-panic', pc, z3.BoolVal(True))
            if m is not None: chk.mismatches.append(f'MultipartBody::from_request panics: {rr}')
            continue
        r, sn = rr
        good_in = z3.And(present, ascii_ok, has_boundary)
        if r.discr == 0:
            kinds.add('ok')
            b = sn.get('boundary')
            flow = isinstance(b, Opaque) and b.tag == 'rfc2046-boundary-of' and isinstance(b.payload, SymStr) and b.payload.term.eq(ct_text.term) \
                and sn.get('reads_this_body') is True
            m = chk.prove('multipart/boundary-is-the-content-types-boundary-parameter', pc, z3.Or(z3.Not(good_in), z3.BoolVal(not flow)))
        else:
            kinds.add('err')
            st = httpmodel.status_of(ex, ex.payload(r))
            m = chk.prove('multipart/refused-with-4xx-only-without-usable-boundary', pc, z3.Or(good_in, z3.BoolVal(not (isinstance(st, int) and 400 <= st <= 499))))
        if m is not None:
            chk.mismatches.append(f'multipart boundary discovery: {r} with {sn} (confirmed only by the wire witnesses)')
    if kinds != {'ok', 'err'}: raise Inconclusive(f'vacuity: multipart outcomes {kinds}; {ex.unsupported_paths[-1:]}')


def witnesses(chk):
    """echo handlers on a loop-back server: tricky values in every position, legal framings of the body, pipelining"""
    import json as J
    from urllib.parse import quote
    def req(method, target, headers=None, body=b''):
        if isinstance(body, str): body = body.encode()
        h = f'{method} {target} HTTP/1.1\r\nHost: replay\r\n'
        for k, v in (headers.items() if isinstance(headers, dict) else (headers or [])): h += f'{k}: {v}\r\n'
        if body or method in ('POST', 'PUT'): h += f'Content-Length: {len(body)}\r\n'
        return {'raw_bytes': list(h.encode() + b'\r\n' + body)}
    def chunked(method, target, headers, parts):
        h = f'{method} {target} HTTP/1.1\r\nHost: replay\r\nTransfer-Encoding: chunked\r\n'
        for k, v in headers.items(): h += f'{k}: {v}\r\n'
        b = b''.join(b'%x\r\n' % len(p) + p + b'\r\n' for p in parts) + b'0\r\n\r\n'
        return {'raw_bytes': list(h.encode() + b'\r\n' + b)}
    strings = ['plain', 'sp ace', 'a/b', '%41', 'é\u00fc\u4e2d', '\U0001F600', 'a+b&c=d;e', '"quoted"', "it's", 'tab\there', '..', '%2e%2e']
    expect, conns = [], []
    for s_ in strings:
        for n_ in (0, -1, 2**63 - 1, -2**63):
            if s_ in ('..',): continue
            conns.append([req('GET', f'/e/{quote(s_, safe="")}/{n_}')]); expect.append(('body', {'s': s_, 'n': n_}))
    for s_ in strings:
        conns.append([req('GET', f'/eq?s={quote(s_, safe="")}&n={2**64 - 1}&b=true&c=Green')]); expect.append(('body', {'s': s_, 'n': 2**64 - 1, 'b': True, 'c': 'Green'}))
    bodies = [{'s': s_, 'i': -2**63, 'u': 2**64 - 1, 'f': 1.5e300, 'b': False, 'o': None, 'v': strings, 'nested': {'s': 'in', 'i': 1, 'u': 2, 'f': -0.5, 'b': True, 'o': 'x', 'v': [], 'nested': None}} for s_ in strings]
    for b_ in bodies:
        js = J.dumps(b_)
        conns.append([req('POST', '/ej', {'Content-Type': 'application/json'}, js)]); expect.append(('body', b_))
    js = J.dumps(bodies[4], ensure_ascii=False).encode()
    conns.append([chunked('POST', '/ej', {'Content-Type': 'application/json; charset=utf-8'}, [js[:1], js[1:7], js[7:]])]); expect.append(('body', bodies[4]))
    conns.append([req('POST', '/ej', {'Content-Type': 'APPLICATION/JSON ;charset=utf-8'}, J.dumps(bodies[0]))]); expect.append(('body', bodies[0]))
    for s_ in strings:
        conns.append([req('POST', '/ef', {'Content-Type': 'application/x-www-form-urlencoded'}, f's={quote(s_, safe="")}&u=18446744073709551615&b=false')])
        expect.append(('body', {'s': s_, 'u': 2**64 - 1, 'b': False}))
    raw = bytes(range(256))
    conns.append([req('POST', '/eraw', {'Content-Type': 'application/octet-stream'}, raw)]); expect.append(('body', list(raw)))
    conns.append([chunked('POST', '/eraw', {}, [raw[:100], raw[100:101], raw[101:]])]); expect.append(('body', list(raw)))
    for ct in ('multipart/form-data; boundary=XyZ', 'multipart/form-data; boundary="XyZ"', 'multipart/form-data; boundary=XyZ; charset=utf-8',
               'multipart/form-data;boundary="XyZ" ; x=y', 'Multipart/Form-Data; Boundary=XyZ'):
        mp = b'--XyZ\r\nContent-Disposition: form-data; name="f1"\r\n\r\nv\xc3\xa9lue 1\r\n--XyZ\r\nContent-Disposition: form-data; name="f2"\r\n\r\n--notaboundary\r\n--XyZ--\r\n'
        conns.append([req('POST', '/em', {'Content-Type': ct}, mp)]); expect.append(('body', [['f1', 'v\u00e9lue 1'], ['f2', '--notaboundary']]))
    # pipelined requests on one connection, and the same requests on separate connections: each sees only its own data
    pipe = [req('PUT', f'/ectx/id{i}?s=q{i}', {'x-probe': f'probe-{i}'}) for i in range(6)]
    conns.append(pipe); expect.append(('ctx', 6))
    for i in range(3):
        # a header field repeated on several lines (RFC 9110 5.3): the handler sees every line, in order
        conns.append([req('PUT', f'/ectx/solo{i}?s=sq{i}', [('x-probe', f'solo-probe-{i}'), ('x-tag', 'alpha'), ('X-Tag', f'beta{i}'), ('x-other', 'o'), ('x-tag', 'gamma')])]); expect.append(('ctx-solo', i))
    r = replay([{'op': 'echo', 'connections': conns}])[0]
    ids = []
    for (kind, want), conn_req, got in zip(expect, conns, r['connections']):
        chk.replayed += 1
        ok = True
        if kind == 'body':
            ok = len(got) == 1 and got[0]['status'] == 200 and got[0]['body'] == want
        elif kind == 'ctx':
            ok = len(got) == want
            for i, g in enumerate(got):
                b = g.get('body') or {}
                ok = ok and g['status'] == 200 and b.get('method') == 'PUT' and b.get('uri') == f'/ectx/id{i}?s=q{i}' and b.get('probe') == f'probe-{i}' and \
                    b.get('path_id') == f'id{i}' and b.get('query_s') == f'q{i}' and b.get('peer_is_loopback') and b.get('peer_port') == g.get('client_port') and \
                    g.get('x_request_id') == [b.get('request_id')]
                ids.append(b.get('request_id'))
        else:
            g = got[0] if got else {}
            b = g.get('body') or {}
            ok = g.get('status') == 200 and b.get('uri') == f'/ectx/solo{want}?s=sq{want}' and b.get('probe') == f'solo-probe-{want}' and b.get('peer_port') == g.get('client_port') \
                and g.get('x_request_id') == [b.get('request_id')] and b.get('tags') == ['alpha', f'beta{want}', 'gamma'] and b.get('header_lines') == 7
            ids.append(b.get('request_id'))
        if not ok:
            text = bytes(conn_req[0]['raw_bytes'][:160]).decode('latin1')
            chk.counterexample(f'echo mismatch: request {text!r}... -> {str(got)[:300]}; expected {str(want)[:200]}', {'op': 'echo', 'connections': [conn_req]}, True, role='echo:' + kind)
    if len(set(ids)) != len(ids) or None in ids:
        chk.counterexample(f'request ids are not unique per request: {ids}', {'op': 'echo', 'connections': [pipe]}, True, role='echo:request-id')
    chk.samples.append({'echo_connections': len(conns), 'sample_request': bytes(conns[3][0]['raw_bytes'][:80]).decode('latin1')})


def run(tier, replay_file=None):
    chk = Check('C09', tier)
    ex = chk.load(G.load_models() + httpmodel.MODELS, loop_bound=100)
    ex.const_models.append(httpmodel.const_model)
    chk.bounds = {'context': 'route tables of 2-3 endpoints, requests of 0..3 opaque segments, both version policies, both handler task modes'}
    chk.assumptions = ['Detached mode: the spawned task runs to completion before the receiver is polled (one legal schedule; no claim about interleavings)',
                       'Clone of Method / Uri / HeaderMap yields an equal value (identity in the model)']
    pending = []
    for part in (lambda: part_context(chk, ex, tier), lambda: part_from_map(chk, ex), lambda: part_multipart(chk, ex)):
        try:
            part()
        except (Inconclusive, Unsupported) as e:
            pending.append(str(e))       # still run the wire witnesses: a replayed violation outranks an inconclusive part
    witnesses(chk)
    if pending and not chk.violations:
        chk.finish('inconclusive run')
        raise Inconclusive(pending[0])
    chk.bounds.update({'from_map': '7 struct shapes (string / integer / option / wildcard sequence fields, declaration order != map order, shape mismatches)',
                       'multipart': 'content type present / ASCII / boundary parameter usable: symbolic', 'wire': '93 echo requests incl. pipelining'})
    return chk.finish('one obligation per (table, policy, mode, request length, execution path, clause)')

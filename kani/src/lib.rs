//! Kani harnesses (C13): the error-status refinement types over ALL u16 values, executed on the
//! compiled code of dropshot and of the `http` crate (no models).
#[cfg(kani)]
mod proofs {
    use dropshot::ClientErrorStatusCode;
    use dropshot::ErrorStatusCode;

    #[kani::proof]
    fn error_status_code_from_u16_all_values() {
        let x: u16 = kani::any();
        let r = ErrorStatusCode::from_u16(x);
        assert_eq!(r.is_ok(), (400..=599).contains(&x));
        if let Ok(c) = r {
            assert_eq!(c.as_u16(), x);
            assert_eq!(c.as_status().as_u16(), x);
            assert_eq!(c.is_client_error(), x <= 499);
            assert_eq!(c.as_client_error().is_ok(), x <= 499);
        }
    }

    #[kani::proof]
    fn client_error_status_code_from_u16_all_values() {
        let x: u16 = kani::any();
        let r = ClientErrorStatusCode::from_u16(x);
        assert_eq!(r.is_ok(), (400..=499).contains(&x));
        if let Ok(c) = r {
            assert_eq!(c.as_u16(), x);
            let e: ErrorStatusCode = c.into();
            assert_eq!(e.as_u16(), x);
        }
    }

    #[kani::proof]
    fn from_status_all_values() {
        let x: u16 = kani::any();
        if let Ok(s) = http::StatusCode::from_u16(x) {
            assert_eq!(ErrorStatusCode::from_status(s).is_ok(), (400..=599).contains(&x));
            assert_eq!(ClientErrorStatusCode::from_status(s).is_ok(), (400..=499).contains(&x));
            assert_eq!(ErrorStatusCode::try_from(s).is_ok(), (400..=599).contains(&x));
            assert_eq!(ClientErrorStatusCode::try_from(s).is_ok(), (400..=499).contains(&x));
        }
    }

    /// vacuity witness: must come back FAILED
    #[kani::proof]
    fn witness_reaches_ok_branch() {
        let x: u16 = kani::any();
        if ErrorStatusCode::from_u16(x).is_ok() {
            assert!(false, "reachable");
        }
    }
}

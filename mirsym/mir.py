"""MIR text reader: turns `rustc -Zunpretty=mir` output into function bodies.

Only syntax is interpreted here; semantics live in core.py.  Items are kept under the
exact name rustc prints (e.g. `router::<impl at dropshot/src/router.rs:226:1: 226:49>::insert`)
and are looked up by file + item path, never by line number (see find()).
"""
import hashlib
import re


class Fn:
    __slots__ = ('name', 'args', 'locals', 'blocks', 'ret', 'text', 'kind', 'span_file')

    def __init__(self, name, kind):
        self.name, self.kind = name, kind
        self.args, self.locals, self.blocks, self.ret, self.text = [], {}, {}, None, ''

    def sha(self):
        return hashlib.sha256(self.text.encode()).hexdigest()[:16]


def split_top(s, sep=','):
    """split on `sep` at nesting depth 0 (parens, brackets, braces, angle brackets, strings)"""
    out, depth, cur, i, n = [], 0, [], 0, len(s)
    instr = False
    while i < n:
        c = s[i]
        if instr:
            cur.append(c)
            if c == '\\' and i + 1 < n:
                cur.append(s[i + 1]); i += 1
            elif c == '"':
                instr = False
        elif c == '"':
            instr = True; cur.append(c)
        elif c == "'" and i + 2 < n and (s[i + 2] == "'" or (s[i + 1] == '\\' and "'" in s[i + 2:i + 8])):
            # char literal such as ',' or '\t' or '\u{9}'
            j = s.index("'", i + 2) if s[i + 1] == '\\' else i + 2
            cur.append(s[i:j + 1]); i = j
        else:
            if c in '([{':
                depth += 1
            elif c in ')]}':
                depth -= 1
            elif c == '<':
                depth += 1
            elif c == '>' and i > 0 and s[i - 1] not in '-=':
                depth -= 1
            if c == sep and depth == 0:
                out.append(''.join(cur).strip()); cur = []
            else:
                cur.append(c)
        i += 1
    t = ''.join(cur).strip()
    if t:
        out.append(t)
    return out


_FN_RE = re.compile(r'^fn (.*?)\((.*)\) -> (.*) \{$')
_CONST_RE = re.compile(r'^(?:const|static) (.*): (.*?) = \{$')
_LET_RE = re.compile(r'let (?:mut )?(_\d+): (.*);$')
_BB_RE = re.compile(r'(bb\d+)( \(cleanup\))?: \{$')
_ARG_RE = re.compile(r'(_\d+): (.*)$', re.S)


def parse_mir(text):
    fns = {}
    lines = text.split('\n')
    i, n = 0, len(lines)
    while i < n:
        l = lines[i]
        if not (l.startswith('fn ') or l.startswith('const ') or l.startswith('static ')):
            i += 1; continue
        m = _FN_RE.match(l)
        cm = None if m else _CONST_RE.match(l)
        if not m and not cm:
            i += 1; continue
        start = i
        if m:
            f = Fn(m.group(1), 'fn'); f.ret = m.group(3)
            for a in split_top(m.group(2)):
                am = _ARG_RE.match(a)
                if am:
                    f.args.append(am.group(1)); f.locals[am.group(1)] = am.group(2)
        else:
            f = Fn('const ' + cm.group(1), 'const'); f.ret = cm.group(2)
        i += 1
        cur = None
        cleanup = False
        while i < n and lines[i] != '}':
            s = lines[i].strip()
            if cur is None:
                lm = _LET_RE.match(s)
                if lm:
                    f.locals[lm.group(1)] = lm.group(2)
                else:
                    bm = _BB_RE.match(s)
                    if bm:
                        cur = bm.group(1); cleanup = bool(bm.group(2))
                        f.blocks[cur] = []
            else:
                if lines[i] == '    }':
                    if cleanup:
                        f.blocks[cur] = ['<cleanup>']
                    cur = None
                elif s:
                    f.blocks[cur].append(s[:-1] if s.endswith(';') else s)
            i += 1
        f.text = '\n'.join(lines[start:i + 1])
        if f.name not in fns:
            fns[f.name] = f
        i += 1
    return fns


def find(fns, pattern, unique=True):
    """locate an item by a regex over its printed name (file + item path)"""
    c = [n for n in fns if re.search(pattern, n)]
    if unique:
        if len(c) != 1:
            raise KeyError(f'MIR item {pattern!r}: expected exactly one match, got {c[:6]}')
        return c[0]
    return c

"""MIRSYM core: a symbolic executor for rustc MIR (text form) producing SMT path conditions.

Values are concolic: plain Python values where the harness supplies concrete data, z3 terms
where it supplies symbols.  switchInt / assert on a symbolic value forks the path; exploration
is replay-based (a path is a list of branch choices; the harness is re-run from the start for
each pending prefix, so no interpreter state is ever copied).

Fail-closed: an unknown statement form, an unmodelled call or a loop bound hit raises
Unsupported, which the runner reports as INCONCLUSIVE (exit 2), never as success.
"""
import re
import z3

from .mir import split_top


# ------------------------------------------------------------------ values
class Cell:
    __slots__ = ('v',)
    def __init__(self, v=None): self.v = v
    def __repr__(self): return f'Cell({self.v!r})'


class Ref:
    __slots__ = ('cell',)
    def __init__(self, cell): self.cell = cell
    def __repr__(self): return f'&{self.cell.v!r}'


class Adt:
    """struct (fields[None]) or enum (fields[variant_index]); discr is the active variant index"""
    __slots__ = ('ty', 'discr', 'fields')
    def __init__(self, ty, discr, fields): self.ty, self.discr, self.fields = ty, discr, fields
    def __repr__(self): return f'{self.ty}#{self.discr}{self.fields.get(self.discr if self.discr in self.fields else None)}'
    def f(self, i, variant=None):
        key = variant if variant is not None else (None if None in self.fields else self.discr)
        return self.fields[key][i]


class Tup:
    __slots__ = ('items',)
    def __init__(self, items): self.items = items
    def __repr__(self): return f'Tup{self.items}'


class Closure:
    __slots__ = ('fn', 'upvars')
    def __init__(self, fn, upvars): self.fn, self.upvars = fn, upvars
    def __repr__(self): return f'Closure({self.fn})'


class FnItem:
    """a function item used as a value (e.g. `map_err(Into::into)`)"""
    __slots__ = ('callee',)
    def __init__(self, callee): self.callee = callee
    def __repr__(self): return f'FnItem({self.callee})'


class PyClosure:
    """a closure supplied by the harness (e.g. the consumer's page-selector function)"""
    __slots__ = ('fn',)
    def __init__(self, fn): self.fn = fn


class PVec:
    """Vec / slice / array model: Python list of Cells (concrete shape)"""
    def __init__(self, items=None): self.items = items if items is not None else []
    def __repr__(self): return f'PVec{self.items}'


class PMap:
    """BTreeMap / BTreeSet model: list of (key, Cell) kept in key order; keys are concrete Python values"""
    def __init__(self): self.items = []
    def find(self, k):
        for kk, c in self.items:
            if kk == k: return c
        return None
    def put(self, k, v):
        c = self.find(k)
        if c is not None:
            old = c.v; c.v = v; return old, True
        self.items.append((k, Cell(v))); self.items.sort(key=lambda kv: kv[0]); return None, False
    def __repr__(self): return f'PMap{self.items}'


class PSet(PMap):
    """BTreeSet / HashSet model: a PMap whose values are its keys; iteration yields the elements"""


class SymStr:
    """opaque symbolic string: a z3 constant of the uninterpreted sort Str (equality only)"""
    __slots__ = ('term',)
    def __init__(self, term): self.term = term
    def __repr__(self): return f'SymStr({self.term})'


class SB:
    """bounded-bytes string: list of z3 BitVec(8) terms / ints, concrete length on this path"""
    __slots__ = ('bs',)
    def __init__(self, bs): self.bs = list(bs)
    def __repr__(self): return f'SB{self.bs}'


class Opaque:
    """a library value the executor never looks into; `tag` says what it is"""
    __slots__ = ('tag', 'payload')
    def __init__(self, tag, payload=None): self.tag, self.payload = tag, payload
    def __repr__(self): return f'Opaque({self.tag},{self.payload})'


class Unsupported(Exception):
    pass


class Panic(Exception):
    def __init__(self, msg): self.msg = msg


class Infeasible(Exception):
    pass


StrSort = z3.DeclareSort('Str')
_lit_cache = {}


def lit(s):
    """the Str constant standing for the concrete string s (all literals pairwise distinct)"""
    if s not in _lit_cache:
        _lit_cache[s] = z3.Const('lit_' + re.sub(r'\W', '_', s) + f'_{len(_lit_cache)}', StrSort)
    return _lit_cache[s]


def lit_axioms():
    ls = list(_lit_cache.values())
    return [z3.Distinct(ls)] if len(ls) > 1 else []


INT_BITS = {'u8': 8, 'i8': 8, 'u16': 16, 'i16': 16, 'u32': 32, 'i32': 32, 'u64': 64, 'i64': 64,
            'usize': 64, 'isize': 64, 'u128': 128, 'i128': 128, 'char': 32}


def strip_generics(s):
    """drop every `<...>` group (nesting-aware; `->` and `=>` are not brackets)"""
    out, depth = [], 0
    for i, c in enumerate(s):
        if c == '<': depth += 1
        elif c == '>' and i > 0 and s[i - 1] not in '-=': depth -= 1
        elif depth == 0: out.append(c)
    return ''.join(out).replace('::::', '::')


def is_sym(v):
    return isinstance(v, z3.ExprRef)


def dv(x):
    """follow references down to the value"""
    while isinstance(x, Ref):
        x = x.cell.v
    return x


def znot(b):
    return (not b) if isinstance(b, bool) else z3.Not(b)


def zand(*xs):
    xs = [x for x in xs if not (isinstance(x, bool) and x)]
    if any(isinstance(x, bool) and not x for x in xs): return False
    if not xs: return True
    return xs[0] if len(xs) == 1 else z3.And(*xs)


def zor(*xs):
    xs = [x for x in xs if not (isinstance(x, bool) and not x)]
    if any(isinstance(x, bool) and x for x in xs): return True
    if not xs: return False
    return xs[0] if len(xs) == 1 else z3.Or(*xs)


def zbool(b):
    return z3.BoolVal(b) if isinstance(b, bool) else b


class Executor:
    def __init__(self, fns, layouts, models, resolver=None, loop_bound=64, max_paths=200000):
        self.fns, self.L, self.models = fns, layouts, list(models)
        self.solver = z3.Solver()
        self.stats = dict(stmts=0, calls=0, branches=0, checks=0, solver_s=0.0, paths=0)
        self.models_used = set()
        self.fns_executed = set()
        self.place_cache = {}
        self.term_cache = {}
        self.resolver = resolver
        self.loop_bound = loop_bound
        self.max_paths = max_paths
        self.cur_fn = []
        self.cur_f = []
        self._clos = None
        self.const_models = []
        self.unsupported_paths = []
        self.summarize = set()     # MIR names of pure bool-returning functions returned as one merged term
        self.variant_owner = {}
        for en, vs in self.L.enums.items():
            for v in vs:
                self.variant_owner.setdefault(v, []).append(en)

    # ---- enum helpers
    def mk_enum(self, ty, var, payload=()):
        vi = self.L.enums[ty].index(var)
        return Adt(ty, vi, {vi: [Cell(p) for p in payload]})
    def some(self, v): return self.mk_enum('Option', 'Some', [v])
    def none(self): return self.mk_enum('Option', 'None')
    def ok(self, v): return self.mk_enum('Result', 'Ok', [v])
    def err(self, v): return self.mk_enum('Result', 'Err', [v])
    def mk_struct(self, ty, **kw):
        defs = self.L.struct_defs.get(ty) or [self.L.structs[ty]]
        fit = [d for d in defs if set(d) == set(kw)]
        names = fit[0] if len(fit) == 1 else self.L.structs[ty]
        missing = [n for n in names if n not in kw]
        extra = [k for k in kw if k not in names]
        if missing or extra:
            raise Unsupported(f'struct {ty}: layout changed (missing {missing}, unknown {extra})')
        return Adt(ty, 0, {None: [Cell(kw[n]) for n in names]})
    def mk_struct_partial(self, ty, **kw):
        """struct with only the named fields populated; any other field read is an opaque `unset` value"""
        defs = self.L.struct_defs.get(ty) or [self.L.structs[ty]]
        fit = [d for d in defs if all(k in d for k in kw)]
        if len(fit) != 1: raise Unsupported(f'struct {ty}: {len(fit)} definitions have fields {list(kw)}')
        names = fit[0]
        extra = [k for k in kw if k not in names]
        if extra: raise Unsupported(f'struct {ty}: layout changed (unknown {extra})')
        return Adt(ty, 0, {None: [Cell(kw[n] if n in kw else Opaque('unset', f'{ty}.{n}')) for n in names]})

    def field(self, adt, name):
        adt = dv(adt)
        defs = self.L.struct_defs.get(adt.ty) or [self.L.structs[adt.ty]]
        fit = [d for d in defs if name in d and len(d) == len(adt.fields[None])] or [d for d in defs if name in d]
        if len(fit) != 1 and len({d.index(name) for d in fit}) != 1:
            raise Unsupported(f'field {name} of {adt.ty}: {len(fit)} struct definitions fit')
        return adt.fields[None][fit[0].index(name)]
    def variant_name(self, adt):
        return self.L.enums[adt.ty][adt.discr]
    def payload(self, adt, i=0):
        return adt.fields[adt.discr][i].v

    # ---- path exploration by replay
    def explore(self, harness, base_assumptions=()):
        """harness(ex) -> outcome.  Returns [(pc list, (kind, outcome))], kind in ok|panic"""
        work = [[]]
        results = []
        while work:
            prefix = work.pop()
            self.prefix, self.trace, self.pc, self.pending = prefix, [], list(base_assumptions), []
            self.cur_fn = []
            self.cur_f = []
            self.steps = 0
            try:
                out = ('ok', harness(self))
            except Panic as p:
                out = ('panic', p.msg)
            except Infeasible:
                out = None
            except Unsupported as u:
                # replay-based exploration: the other paths are unaffected; the run as a whole stays inconclusive
                # unless a (natively replayed) violation is found elsewhere
                if not self.pending and not results and not work: raise
                self.unsupported_paths.append(str(u)[:300])
                out = None
            for alt in self.pending:
                work.append(alt)
            if out is not None:
                results.append((list(self.pc), out))
                self.stats['paths'] += 1
                if len(results) > self.max_paths:
                    raise Unsupported('path bound exceeded')
        return results

    def feasible(self, cond):
        import time
        self.stats['checks'] += 1
        t0 = time.time()
        self.solver.push()
        self.solver.add(lit_axioms()); self.solver.add(self.pc); self.solver.add(cond)
        r = self.solver.check()
        self.solver.pop()
        self.stats['solver_s'] += time.time() - t0
        if r == z3.unknown:
            raise Unsupported('solver unknown in feasibility check')
        return r == z3.sat

    def branch(self, options):
        """options: list of mutually exclusive conditions; returns index of the one taken on this path"""
        self.stats['branches'] += 1
        opts = []
        for i, c in enumerate(options):
            c = z3.simplify(c) if is_sym(c) else z3.BoolVal(bool(c))
            if z3.is_false(c): continue
            opts.append((i, c))
        if len(opts) == 1 and z3.is_true(opts[0][1]):
            return opts[0][0]
        pos = len(self.trace)
        if pos < len(self.prefix):
            i = self.prefix[pos]
            self.trace.append(i); self.pc.append(zbool(options[i])); return i
        feas = [(i, c) for i, c in opts if self.feasible(c)]
        if not feas:
            raise Infeasible()
        for i, c in feas[1:]:
            self.pending.append(self.trace + [i])
        i, c = feas[0]
        self.trace.append(i); self.pc.append(c); return i

    def truth(self, b):
        if isinstance(b, bool): return b
        if isinstance(b, int): return b != 0
        if z3.is_true(b): return True
        if z3.is_false(b): return False
        return self.branch([z3.Not(b), b]) == 1

    def assume(self, b):
        """constrain the current path (used by contract models)"""
        if isinstance(b, bool):
            if not b: raise Infeasible()
            return
        if not self.truth(b):
            raise Infeasible()

    # ---- places
    def parse_place(self, s):
        p = self.place_cache.get(s)
        if p is None:
            p = self._parse_place(s.strip()); self.place_cache[s] = p
        return p

    def _parse_place(self, s):
        if re.match(r'^_\d+$', s): return ('local', s)
        if s.startswith('(*') and s.endswith(')') and self._bal(s[2:-1]):
            return ('deref', self._parse_place(s[2:-1]))
        m = re.match(r'^(.*)\[(_\d+)\]$', s)
        if m and self._bal(m.group(1)):
            return ('index', self._parse_place(m.group(1)), m.group(2))
        m = re.match(r'^(.*)\[(-?\d+) of (\d+)\]$', s)
        if m and self._bal(m.group(1)):
            return ('cindex', self._parse_place(m.group(1)), int(m.group(2)))
        if s.startswith('(') and s.endswith(')'):
            inner = s[1:-1]
            dm = re.match(r'^(.*) as ([\w#]+)$', inner)
            if dm and self._bal(dm.group(1)):
                return ('downcast', self._parse_place(dm.group(1)), dm.group(2))
            depth = 0
            for i, c in enumerate(inner):
                if c in '([': depth += 1
                elif c in ')]': depth -= 1
                elif c == '.' and depth == 0:
                    fm = re.match(r'^\.(\d+): (.*)$', inner[i:], re.S)
                    if fm and self._bal(inner[:i]):
                        return ('field', self._parse_place(inner[:i]), int(fm.group(1)), fm.group(2))
        raise Unsupported('place ' + s)

    @staticmethod
    def _bal(s):
        d = 0
        for c in s:
            if c == '(': d += 1
            elif c == ')':
                d -= 1
                if d < 0: return False
        return d == 0

    # projecting INTO one of these wrappers yields the same cell (they are only reached through Box / Vec / NonZero internals)
    TRANSPARENT = ('std::ptr::Unique<', 'std::ptr::NonNull<', 'std::mem::ManuallyDrop<', 'std::mem::MaybeDangling<',
                   'std::mem::MaybeUninit<', 'std::num::niche_types::', 'NonNull<', 'Unique<')
    # projecting OUT OF one of these (field .0 of a value of this type) yields the same cell
    TRANSPARENT_BASE = ('std::num::niche_types::', 'std::pin::Pin<', 'Pin<')

    def base_ty(self, p):
        if p[0] == 'field': return p[3]
        if p[0] == 'local' and self.cur_f: return self.cur_f[-1].locals.get(p[1])
        if p[0] == 'deref':
            t = self.base_ty(p[1])
            return re.sub(r"^&('\w+ )?(mut )?", '', t) if t else None
        return None

    def cell_of(self, frame, p):
        k = p[0]
        if k == 'local':
            c = frame.get(p[1])
            if c is None: c = frame[p[1]] = Cell()
            return c
        if k == 'deref':
            r = self.cell_of(frame, p[1])
            if isinstance(r, tuple): raise Unsupported('deref of downcast')
            r = r.v
            if isinstance(r, Ref): return r.cell
            if isinstance(r, Adt) and r.ty == 'Pin':      # Pin<&mut T> deref
                r2 = r.fields[None][0].v
                if isinstance(r2, Ref): return r2.cell
            raise Unsupported(f'deref of {r!r} in {self.cur_fn[-1] if self.cur_fn else "?"}')
        if k == 'downcast':
            return ('dc', self.cell_of(frame, p[1]), p[2])
        if k in ('index', 'cindex'):
            base = self.cell_of(frame, p[1]).v
            idx = frame[p[2]].v if k == 'index' else p[2]
            if isinstance(idx, z3.ExprRef): raise Unsupported('symbolic index')
            if isinstance(base, PVec): return base.items[idx]
            raise Unsupported(f'index into {base!r}')
        if k == 'field':
            base = self.cell_of(frame, p[1])
            if isinstance(base, tuple):
                _, c, var = base
                adt = c.v
                if isinstance(adt, Adt) and adt.ty == 'Coroutine':
                    return adt.fields.setdefault((var, p[2]), Cell())
                if not isinstance(adt, Adt): raise Unsupported(f'downcast of {adt!r}')
                vi = self.L.enums[adt.ty].index(var)
                fl = adt.fields.setdefault(vi, [])
                while len(fl) <= p[2]: fl.append(Cell())
                return fl[p[2]]
            v = base.v
            if isinstance(v, Adt) and v.ty == 'Pin' and p[3].startswith('&'):
                return v.fields[None][0]
            if any(p[3].startswith(t) for t in self.TRANSPARENT) or isinstance(v, Ref) and not p[3].startswith('&'):
                return base           # Box / Unique / NonNull / MaybeUninit wrappers are transparent
            bt = self.base_ty(p[1])
            if bt and any(bt.startswith(t) for t in self.TRANSPARENT_BASE) and not isinstance(v, (Adt, Tup)):
                return base
            if isinstance(v, Tup): return v.items[p[2]]
            if isinstance(v, Adt):
                fl = v.fields.setdefault(None, [])
                while len(fl) <= p[2]: fl.append(Cell())
                return fl[p[2]]
            if v is None:   # writing a field of an uninit aggregate (e.g. MaybeUninit payload, or deaggregated struct)
                return base
            if isinstance(v, PVec) and p[2] == 0:   # Vec<T>.buf etc. never needed; treat as transparent
                return base
            raise Unsupported(f'field {p[2]} of {v!r} in {self.cur_fn[-1] if self.cur_fn else None}')
        raise Unsupported(str(p))

    # ---- types of operands (for integer widths / signedness)
    def operand_ty(self, f, s):
        s = s.strip()
        if s.startswith('no_retag '): s = s[9:]
        if s.startswith('const '):
            m = re.match(r'^const (-?\d+)_(\w+)$', s)
            if m: return m.group(2)
            if s in ('const true', 'const false'): return 'bool'
            if s.startswith("const '"): return 'char'
            return None
        if s.startswith('copy ') or s.startswith('move '):
            return self.place_ty(f, self.parse_place(s[5:]))
        return None

    def place_ty(self, f, p):
        if p[0] == 'local': return f.locals.get(p[1])
        if p[0] == 'field': return p[3]
        if p[0] == 'deref':
            t = self.place_ty(f, p[1])
            if t is None: return None
            t = re.sub(r"^&('\w+ )?(mut )?", '', t)
            return t
        return None

    # ---- constants / operands / rvalues
    def const(self, c, f):
        if c == 'true': return True
        if c == 'false': return False
        if c in ('()', 'ZeroSized'): return Tup([])
        m = re.match(r'^(-?\d+)_(\w+)$', c)
        if m: return int(m.group(1))
        m = re.match(r'^(-?[\d.]+(?:e-?\d+)?)f(32|64)$', c)
        if m: return float(m.group(1))
        if c.startswith('"'): return self._str_lit(c)
        if c.startswith('b"'): return Ref(Cell(PVec([Cell(b) for b in self._bytes_lit(c[1:])])))      # &'static [u8; N]
        if c.startswith("'"): return self._str_lit('"' + c[1:-1].replace('"', '\\"') + '"') if c != "'\"'" else '"'
        if c.startswith('ZeroSized: '):
            t = c[len('ZeroSized: '):]
            cm = re.match(r'^\{closure@(.*?)\}$', t)
            if cm: return Closure(self.closure_by_span(cm.group(1)), [])
            return Opaque('zst', t)
        pm = re.match(r'^(.*)::promoted\[(\d+)\]$', c)
        if pm:
            cur = self.cur_fn[-1]
            for base in (cur, cur.split('::{closure')[0]):
                name = f'const {base}::promoted[{pm.group(2)}]'
                if name in self.fns: return self.call_fn(name, [])
            raise Unsupported('promoted const ' + c)
        return self.named_const(c)

    @staticmethod
    def _str_lit(c):
        # Rust string literal -> Python str
        body = c[1:-1]
        out, i = [], 0
        while i < len(body):
            ch = body[i]
            if ch == '\\':
                n = body[i + 1]
                if n == 'n': out.append('\n'); i += 2
                elif n == 't': out.append('\t'); i += 2
                elif n == 'r': out.append('\r'); i += 2
                elif n == '0': out.append('\0'); i += 2
                elif n in '\\"\'': out.append(n); i += 2
                elif n == 'x': out.append(chr(int(body[i + 2:i + 4], 16))); i += 4
                elif n == 'u':
                    j = body.index('}', i); out.append(chr(int(body[i + 3:j], 16))); i = j + 1
                else: raise Unsupported('string escape ' + body[i:i + 4])
            else:
                out.append(ch); i += 1
        return ''.join(out)

    @staticmethod
    def _bytes_lit(c):
        body = c[1:-1]
        out, i = [], 0
        while i < len(body):
            ch = body[i]
            if ch == '\\':
                n = body[i + 1]
                if n == 'x': out.append(int(body[i + 2:i + 4], 16)); i += 4
                else: out.append({'n': 10, 't': 9, 'r': 13, '0': 0, '\\': 92, '"': 34, "'": 39}[n]); i += 2
            else:
                out.append(ord(ch)); i += 1
        return out

    def named_const(self, c):
        """unit enum variants, associated consts; anything else is an opaque library constant"""
        for cm in self.const_models:
            r = cm(self, c)
            if r is not None: return r
        m = re.match(r'^(?:std::result::)?Result::<.*?>::(Ok|Err)\((.*)\)$', c, re.S)
        if m: return self.mk_enum('Result', m.group(1), [Opaque('const', m.group(2))])
        m = re.match(r'^(?:std::option::)?Option::<.*?>::None$', c, re.S)
        if m: return self.none()
        c2 = re.sub(r'::<[^()]*?>(?=::|$)', '', c)
        parts = c2.split('::')
        if len(parts) >= 2 and parts[-2] in self.L.enums and parts[-1] in self.L.enums[parts[-2]]:
            return self.mk_enum(parts[-2], parts[-1])
        if self.resolver is not None:
            r = self.resolver.resolve_const(self, c)
            if r is not None: return r
        return Opaque('const', c)

    def closure_by_span(self, span):
        if self._clos is None:
            self._clos = {}
            for n, f in self.fns.items():
                if '{closure#' in n and f.args:
                    t = f.locals[f.args[0]]
                    m = re.search(r'\{(?:closure|async block|async fn body of [^@]*|async closure)@([^}]*)\}', t)
                    if m: self._clos.setdefault(m.group(1), []).append(n)
        if span not in self._clos: raise Unsupported('closure ' + span)
        cands = self._clos[span]
        if len(cands) > 1 and self.cur_fn:
            # closures generated by one macro share a span: take the one nested in the function being executed
            cur = self.cur_fn[-1]
            # items generated several times by one macro are kept as name#k: the copy's closures carry the same #k
            mk = re.search(r'#\d+$', cur)
            sfx = mk.group(0) if mk else ''
            if sfx: cur = cur[:-len(sfx)]
            mine = [n for n in cands if n.startswith(cur + '::{closure#') and (n.endswith(sfx) if sfx else not re.search(r'#\d+$', n))]
            direct = [n for n in mine if '::{closure#' not in (n[:-len(sfx)] if sfx else n)[len(cur) + 2 + n[len(cur) + 2:].find('}') + 1:]] or mine
            if len(direct) >= 1: return direct[0]
            raise Unsupported(f'closure {span}: {len(cands)} candidates, none nested in {cur}')
        return cands[0]

    def operand(self, frame, s, f=None):
        s = s.strip()
        if s.startswith('no_retag '): s = s[9:]
        if s.startswith('copy ') or s.startswith('move '):
            c = self.cell_of(frame, self.parse_place(s[5:]))
            if isinstance(c, tuple): raise Unsupported('operand is a downcast: ' + s)
            return c.v
        if s.startswith('const '): return self.const(s[6:], f)
        if re.match(r'^[<\w]', s) and ('::' in s or re.match(r'^[A-Za-z_]\w*$', s)): return FnItem(s)
        raise Unsupported('operand ' + s)

    BINOPS = ('Eq', 'Ne', 'Lt', 'Le', 'Gt', 'Ge', 'Add', 'Sub', 'Mul', 'Div', 'Rem', 'AddWithOverflow', 'SubWithOverflow',
              'MulWithOverflow', 'BitAnd', 'BitOr', 'BitXor', 'Shl', 'Shr', 'AddUnchecked', 'SubUnchecked', 'Cmp', 'Offset')
    _BINOP_RE = re.compile(r'^(' + '|'.join(BINOPS) + r')\((.*)\)$', re.S)

    def rvalue(self, frame, s, f):
        s = s.strip()
        if s.startswith('&raw '): s = '&' + s.split(' ', 2)[2]
        if s.startswith('&') and not s.startswith('&&'):
            t = s[1:]
            if t.startswith('mut '): t = t[4:]
            if t.startswith('fake shallow '): t = t[13:]
            if t.startswith('fake '): t = t[5:]
            c = self.cell_of(frame, self.parse_place(t))
            if isinstance(c, tuple): raise Unsupported('ref to downcast')
            return Ref(c)
        m = re.match(r'^discriminant\((.*)\)$', s)
        if m:
            v = self.cell_of(frame, self.parse_place(m.group(1))).v
            if not isinstance(v, Adt): raise Unsupported(f'discriminant of {v!r}')
            if v.ty == 'Ordering': return v.discr - 1
            return v.discr
        m = re.match(r'^(.*) as (.*?) \((\w+)(?:\(.*\))?(?:, \w+)?\)$', s, re.S)
        if m:
            v = self.operand(frame, m.group(1), f)
            kind = m.group(3)
            if kind == 'IntToInt':
                return self.int_cast(v, self.operand_ty(f, m.group(1)), m.group(2))
            if kind in ('Transmute', 'PtrToPtr', 'PointerCoercion', 'Subtype', 'MutToConstPointer'):
                return v
            if kind == 'FloatToInt' and getattr(self, 'float_to_int', None):
                return self.float_to_int(self, v, m.group(2))
            raise Unsupported('cast ' + s)
        if re.match(r'^(no_retag )?(copy|move|const) ', s):
            return self.operand(frame, s, f)
        m = self._BINOP_RE.match(s)
        if m:
            ops = split_top(m.group(2))
            a, b = [self.operand(frame, x, f) for x in ops]
            ty = self.operand_ty(f, ops[0]) or self.operand_ty(f, ops[1])
            return self.binop(m.group(1), a, b, ty)
        m = re.match(r'^Not\((.*)\)$', s)
        if m:
            a = self.operand(frame, m.group(1), f)
            if isinstance(a, bool): return not a
            if z3.is_bool(a): return z3.Not(a)
            raise Unsupported('Not of ' + repr(a))
        m = re.match(r'^Neg\((.*)\)$', s)
        if m:
            a = self.operand(frame, m.group(1), f); return -a
        m = re.match(r'^(?:Len|PtrMetadata)\((.*)\)$', s)
        if m:
            inner = m.group(1)
            v = dv(self.operand(frame, inner, f) if re.match(r'^(copy|move) ', inner) else self.cell_of(frame, self.parse_place(inner)).v)
            if isinstance(v, PVec): return len(v.items)
            if isinstance(v, str): return len(v.encode())
            if isinstance(v, SB): return len(v.bs)
            raise Unsupported('Len of ' + repr(v))
        m = re.match(r'^\{(closure|coroutine)@(.*?)(?: \(#\d+\))?\}( \{ (.*) \})?$', s, re.S)
        if m:
            ups = [self.operand(frame, a.split(': ', 1)[1], f) for a in split_top(m.group(4))] if m.group(4) else []
            if m.group(1) == 'coroutine':
                try:
                    fn = self.closure_by_span(m.group(2))
                except Unsupported:
                    # the body of an `async fn` is {closure#0} of the function that builds it (its type carries no span)
                    fn = self.cur_fn[-1] + '::{closure#0}'
                    if fn not in self.fns or 'async fn body of' not in self.fns[fn].locals.get('_1', ''): raise
                return self.mk_coroutine(fn, ups)
            return Closure(self.closure_by_span(m.group(2)), ups)
        m = re.match(r'^\{(async block|async fn body of [^@]*|async closure)@(.*?)\}( \{ (.*) \})?$', s, re.S)
        if m:
            ups = [self.operand(frame, a.split(': ', 1)[1], f) for a in split_top(m.group(4))] if m.group(4) else []
            return self.mk_coroutine(self.closure_by_span(m.group(2)), ups)
        m = re.match(r'^\[(.*); (\d+)(_usize)?\]$', s, re.S)
        if m:
            v = self.operand(frame, m.group(1), f)
            return PVec([Cell(v) for _ in range(int(m.group(2)))])
        m = re.match(r'^\[(.*)\]$', s, re.S)
        if m: return PVec([Cell(self.operand(frame, a, f)) for a in split_top(m.group(1))])
        m = re.match(r'^\((.*)\)$', s, re.S)
        if m:
            items = split_top(m.group(1))
            return Tup([Cell(self.operand(frame, a.rstrip(','), f)) for a in items])
        return self.aggregate(frame, s, f)

    def mk_coroutine(self, fn, upvars):
        co = Adt('Coroutine', 0, {None: [Cell(u) for u in upvars]})
        co.fields['fn'] = fn
        return co

    def aggregate(self, frame, s, f):
        # Path::<..>::Variant(args) | Path::Variant | Path::Variant { f: x } | Path { f: x }
        m = re.match(r'^(.*?)( \{ (.*) \}|\((.*)\))?$', s, re.S)
        head = s
        body = None; kind = None
        if s.endswith(' }') and ' { ' in s:
            # find the top-level " { "
            depth = 0
            for i, c in enumerate(s):
                if c == '<': depth += 1
                elif c == '>' and s[i - 1] not in '-=': depth -= 1
                elif c == ' ' and depth == 0 and s.startswith(' { ', i):
                    head, body, kind = s[:i], s[i + 3:-2], 'named'; break
        elif s.endswith(')'):
            depth = 0
            for i, c in enumerate(s):
                if c == '<': depth += 1
                elif c == '>' and s[i - 1] not in '-=': depth -= 1
                elif c == '(' and depth == 0:
                    head, body, kind = s[:i], s[i + 1:-1], 'tuple'; break
        path = re.sub(r'<[^<>]*(<[^<>]*(<[^<>]*>[^<>]*)*>[^<>]*)*>', '', head)
        path = path.replace('::::', '::')
        parts = [p for p in path.split('::') if p]
        if not parts or not re.match(r'^\w+$', parts[-1]): raise Unsupported('rvalue ' + s)
        if kind == 'named':
            args = [self.operand(frame, a.split(': ', 1)[1], f) for a in split_top(body)]
        elif kind == 'tuple':
            args = [self.operand(frame, a, f) for a in split_top(body)]
        else:
            args = []
        last = parts[-1]
        if len(parts) >= 2 and parts[-2] in self.L.enums and last in self.L.enums[parts[-2]]:
            return self.mk_enum(parts[-2], last, args)
        if last in self.L.structs or kind == 'named' or kind == 'tuple':
            if last not in self.L.structs and last in self.variant_owner and len(self.variant_owner[last]) == 1:
                return self.mk_enum(self.variant_owner[last][0], last, args)
            if last not in self.L.structs and kind == 'named' and len(self.variant_owner.get(last, [])) > 1:
                # struct-like variants are printed without their enum: pick the enum whose variant has these field names
                names = [a.split(': ', 1)[0].strip() for a in split_top(body)]
                owners = [en for en in self.variant_owner[last] if self.L.variant_fields.get((en, last)) == names]
                if len(owners) == 1: return self.mk_enum(owners[0], last, args)
                raise Unsupported(f'ambiguous struct-like variant {last} {names}')
            return Adt(last, 0, {None: [Cell(a) for a in args]})
        if last in self.variant_owner and len(self.variant_owner[last]) == 1:
            return self.mk_enum(self.variant_owner[last][0], last, args)
        if '::atomic::Ordering::' in s or s.startswith('atomic::Ordering::'):
            return Opaque('atomic-ordering', last)         # memory orderings carry no data and never change a single-threaded result
        if last in self.variant_owner and getattr(self, '_dest_ty', None):
            # a bare variant name of several enums: the declared type of the destination decides
            base = re.sub(r'<.*$', '', self._dest_ty).split('::')[-1]
            if base in self.variant_owner[last]: return self.mk_enum(base, last, args)
        raise Unsupported('rvalue ' + s)

    def int_cast(self, v, src, dst):
        db = INT_BITS.get(dst)
        if db is None: raise Unsupported(f'cast to {dst}')
        if isinstance(v, bool): v = int(v)
        if isinstance(v, int):
            v &= (1 << db) - 1
            if dst.startswith('i') and v >= 1 << (db - 1): v -= 1 << db
            return v
        if z3.is_bool(v): return z3.If(v, z3.BitVecVal(1, db), z3.BitVecVal(0, db))
        if z3.is_int(v):       # unbounded integer term (value-level models): `as` wraps into the target range
            lo = -(1 << (db - 1)) if dst.startswith('i') else 0
            return (v - lo) % (1 << db) + lo
        if z3.is_bv(v):
            sb = v.size()
            if sb == db: return v
            if sb > db: return z3.Extract(db - 1, 0, v)
            return z3.SignExt(db - sb, v) if (src or '').startswith('i') else z3.ZeroExt(db - sb, v)
        raise Unsupported(f'int cast of {v!r}')

    def binop(self, op, a, b, ty=None):
        if isinstance(a, str) and len(a) == 1: a = ord(a)
        if isinstance(b, str) and len(b) == 1: b = ord(b)
        sym = is_sym(a) or is_sym(b)
        if not sym:
            if isinstance(a, Ref) or isinstance(b, Ref):
                if op in ('Eq', 'Ne'):
                    same = isinstance(a, Ref) and isinstance(b, Ref) and a.cell is b.cell
                    return same if op == 'Eq' else not same
                raise Unsupported(f'binop {op} on refs')
            if not isinstance(a, (int, bool, float)) or not isinstance(b, (int, bool, float)):
                raise Unsupported(f'binop {op} {a!r} {b!r}')
            bits = INT_BITS.get(ty or '', 64)
            signed = (ty or 'u').startswith('i')
            lo, hi = (-(1 << (bits - 1)), (1 << (bits - 1)) - 1) if signed else (0, (1 << bits) - 1)
            def wrap(x):
                x &= (1 << bits) - 1
                return x - (1 << bits) if signed and x > hi else x
            if op == 'Eq': return a == b
            if op == 'Ne': return a != b
            if op == 'Lt': return a < b
            if op == 'Le': return a <= b
            if op == 'Gt': return a > b
            if op == 'Ge': return a >= b
            if op in ('Add', 'AddUnchecked'): return wrap(a + b)
            if op in ('Sub', 'SubUnchecked'): return wrap(a - b)
            if op == 'Mul': return wrap(a * b)
            if op == 'Div':
                if b == 0: raise Panic('division by zero')
                return int(a / b) if signed else a // b
            if op == 'Rem':
                if b == 0: raise Panic('rem by zero')
                return a - b * int(a / b) if signed else a % b
            if op == 'AddWithOverflow': r = a + b; return Tup([Cell(wrap(r)), Cell(not (lo <= r <= hi))])
            if op == 'SubWithOverflow': r = a - b; return Tup([Cell(wrap(r)), Cell(not (lo <= r <= hi))])
            if op == 'MulWithOverflow': r = a * b; return Tup([Cell(wrap(r)), Cell(not (lo <= r <= hi))])
            if op == 'BitAnd': return (a & b) if not isinstance(a, bool) else (a and b)
            if op == 'BitOr': return (a | b) if not isinstance(a, bool) else (a or b)
            if op == 'BitXor': return (a ^ b) if not isinstance(a, bool) else (a != b)
            if op == 'Shl': return wrap(a << (b % bits))
            if op == 'Shr': return a >> (b % bits)
            raise Unsupported(f'binop {op}')
        # symbolic
        if z3.is_bool(a) or z3.is_bool(b) or isinstance(a, bool) or isinstance(b, bool):
            a, b = zbool(a) if not is_sym(a) else a, zbool(b) if not is_sym(b) else b
            if op == 'Eq': return a == b
            if op == 'Ne': return a != b
            if op == 'BitAnd': return z3.And(a, b)
            if op == 'BitOr': return z3.Or(a, b)
            if op == 'BitXor': return z3.Xor(a, b)
            raise Unsupported(f'bool binop {op}')
        if z3.is_bv(a) or z3.is_bv(b):
            w = a.size() if z3.is_bv(a) else b.size()
            if not z3.is_bv(a): a = z3.BitVecVal(a, w)
            if not z3.is_bv(b): b = z3.BitVecVal(b, w)
            if a.size() != b.size():
                if op in ('Shl', 'Shr'):
                    b = z3.ZeroExt(a.size() - b.size(), b) if b.size() < a.size() else z3.Extract(a.size() - 1, 0, b)
                else:
                    raise Unsupported(f'bv width mismatch {a.size()} {b.size()} in {op}')
            signed = (ty or 'u').startswith('i')
            if op == 'Eq': return a == b
            if op == 'Ne': return a != b
            if op == 'Lt': return (a < b) if signed else z3.ULT(a, b)
            if op == 'Le': return (a <= b) if signed else z3.ULE(a, b)
            if op == 'Gt': return (a > b) if signed else z3.UGT(a, b)
            if op == 'Ge': return (a >= b) if signed else z3.UGE(a, b)
            if op in ('Add', 'AddUnchecked'): return a + b
            if op in ('Sub', 'SubUnchecked'): return a - b
            if op == 'Mul': return a * b
            if op == 'BitAnd': return a & b
            if op == 'BitOr': return a | b
            if op == 'BitXor': return a ^ b
            if op == 'Shl': return a << b
            if op == 'Shr': return (a >> b) if signed else z3.LShR(a, b)
            if op == 'AddWithOverflow':
                s = a + b
                ov = z3.Not(z3.BVAddNoOverflow(a, b, signed)) if not signed else z3.Or(z3.Not(z3.BVAddNoOverflow(a, b, True)), z3.Not(z3.BVAddNoUnderflow(a, b)))
                return Tup([Cell(s), Cell(ov)])
            if op == 'SubWithOverflow':
                s = a - b
                ov = z3.ULT(a, b) if not signed else z3.Or(z3.Not(z3.BVSubNoOverflow(a, b)), z3.Not(z3.BVSubNoUnderflow(a, b, True)))
                return Tup([Cell(s), Cell(ov)])
            if op == 'MulWithOverflow':
                s = a * b
                ov = z3.Not(z3.BVMulNoOverflow(a, b, signed))
                return Tup([Cell(s), Cell(ov)])
            if op == 'Div': return (a / b) if signed else z3.UDiv(a, b)
            if op == 'Rem': return z3.SRem(a, b) if signed else z3.URem(a, b)
            raise Unsupported(f'bv binop {op}')
        # machine integers as mathematical integers (operands within the type's range): the result keeps the mod-2^k semantics
        if (z3.is_int(a) or isinstance(a, int)) and (z3.is_int(b) or isinstance(b, int)) and (ty or '') in INT_BITS and op in (
                'Add', 'Sub', 'AddUnchecked', 'SubUnchecked', 'AddWithOverflow', 'SubWithOverflow'):
            bits = INT_BITS[ty]
            signed = ty.startswith('i')
            lo, hi = (-(1 << (bits - 1)), (1 << (bits - 1)) - 1) if signed else (0, (1 << bits) - 1)
            r = (a + b) if op.startswith('Add') else (a - b)
            wrapped = z3.If(r > hi, r - (1 << bits), z3.If(r < lo, r + (1 << bits), r))
            if op.endswith('WithOverflow'): return Tup([Cell(wrapped), Cell(z3.Or(r > hi, r < lo))])
            return wrapped
        # arithmetic sorts (Real/Int): versions as a dense order
        if op == 'Eq': return a == b
        if op == 'Ne': return a != b
        if op == 'Lt': return a < b
        if op == 'Le': return a <= b
        if op == 'Gt': return a > b
        if op == 'Ge': return a >= b
        raise Unsupported(f'binop {op} on {a!r} {b!r}')

    # ---- running
    def call_fn(self, name, args):
        f = self.fns[name]
        frame = {}
        if len(args) != len(f.args):
            raise Unsupported(f'arity mismatch calling {name}: {len(args)} vs {len(f.args)}')
        for loc, a in zip(f.args, args): frame[loc] = Cell(a)
        self.stats['calls'] += 1
        self.fns_executed.add(name)
        self.cur_fn.append(name)
        self.cur_f.append(f)
        if len(self.cur_fn) > 200: raise Unsupported('call depth')
        try:
            return self._run(f, frame, name)
        finally:
            self.cur_fn.pop()
            self.cur_f.pop()

    def _run(self, f, frame, name):
        bb = 'bb0'
        visits = {}
        while True:
            n = visits.get(bb, 0) + 1
            visits[bb] = n
            if n > self.loop_bound:
                raise Unsupported(f'loop bound {self.loop_bound} hit in {name} at {bb}')
            stmts = f.blocks[bb]
            for st in stmts[:-1]:
                self.stats['stmts'] += 1
                c0 = st[0]
                if c0 == 'S' and (st.startswith('StorageLive') or st.startswith('StorageDead')): continue
                if c0 in 'FnPRCAD' and (st.startswith('FakeRead') or st == 'nop' or st.startswith('PlaceMention') or st.startswith('Retag')
                                        or st.startswith('Coverage') or st.startswith('ConstEvalCounter') or st.startswith('AscribeUserType')
                                        or st.startswith('Deinit(')):
                    continue
                if st.startswith('discriminant('):
                    m = re.match(r'^discriminant\((.*)\) = (\d+)$', st)
                    if m:
                        tgt = self.cell_of(frame, self.parse_place(m.group(1))).v
                        tgt.discr = int(m.group(2)); continue
                if st.startswith('assume('):
                    continue
                i = self.assign_split(st)
                if i < 0: raise Unsupported('statement ' + st)
                lhs, rhs = st[:i], st[i + 3:]
                self._dest_ty = f.locals.get(lhs.strip()) if re.match(r'^_\d+$', lhs.strip()) else None
                v = self.rvalue(frame, rhs, f)
                c = self.cell_of(frame, self.parse_place(lhs))
                if isinstance(c, tuple): raise Unsupported('assign to downcast')
                c.v = v
            t = stmts[-1]
            self.stats['stmts'] += 1
            if t == 'return': return frame['_0'].v if '_0' in frame else Tup([])
            if t == 'unreachable': raise Unsupported('reached `unreachable` in ' + name + ' ' + bb)
            if t.startswith('goto -> '):
                bb = t[8:]; continue
            if t.startswith('drop('):
                m = re.match(r'^drop\(.*\) -> \[return: (bb\d+),', t)
                if m: bb = m.group(1); continue
            if t.startswith('switchInt('):
                m = re.match(r'^switchInt\((.*)\) -> \[(.*)\]$', t)
                v = self.operand(frame, m.group(1), f)
                key = (name, bb)
                arms = self.term_cache.get(key)
                if arms is None:
                    arms = self.term_cache[key] = [a.split(': ') for a in split_top(m.group(2))]
                if isinstance(v, str) and len(v) == 1: v = ord(v)
                if isinstance(v, (int, bool)):
                    tgt = None
                    vi = int(v)
                    for val, target in arms:
                        if val != 'otherwise':
                            av = int(val)
                            if av == vi or (vi < 0 and av == vi + (1 << 8)) or (vi < 0 and av == vi + (1 << 64)):
                                tgt = target
                    if tgt is None: tgt = [t2 for v2, t2 in arms if v2 == 'otherwise'][0]
                    bb = tgt; continue
                if not is_sym(v): raise Unsupported(f'switchInt on {v!r} in {name}')
                conds, seen = [], []
                for val, target in arms:
                    if val == 'otherwise':
                        conds.append(z3.And([z3.Not(c) for c in seen]) if seen else z3.BoolVal(True))
                    else:
                        c = (v if int(val) != 0 else z3.Not(v)) if z3.is_bool(v) else (v == int(val))
                        conds.append(c); seen.append(c)
                bb = arms[self.branch(conds)][1]; continue
            if t.startswith('assert('):
                m = re.match(r'^assert\((!?)(.*?), (.*)\) -> \[success: (bb\d+),', t, re.S)
                if m:
                    v = self.operand(frame, m.group(2), f)
                    if m.group(1): v = znot(v)
                    if not self.truth(v): raise Panic('assert failed: ' + m.group(3)[:100])
                    bb = m.group(4); continue
            if t.endswith(')') is False and ') -> ' in t:
                dest, callee, argstr, tail = self.split_call(t)
                args = [self.operand(frame, a, f) for a in split_top(argstr)]
                if callee.startswith('copy ') or callee.startswith('move '):
                    rv = self.call_closure(self.operand(frame, callee, f), args)       # call through a fn pointer / closure value
                else:
                    rv = self.do_call(callee, args, f)
                rm = re.search(r'return: (bb\d+)', tail)
                if not rm:
                    bm = re.match(r'^(bb\d+)$', tail)
                    if not bm: raise Panic('diverging call returned: ' + callee)
                    rm = bm
                if dest:
                    c = self.cell_of(frame, self.parse_place(dest))
                    if isinstance(c, tuple): raise Unsupported('call dest downcast')
                    c.v = rv
                bb = rm.group(1); continue
            raise Unsupported('terminator ' + t)

    _assign_cache = {}

    @classmethod
    def assign_split(cls, st):
        """index of the assignment's ` = ` (types inside the place may contain ` = `, e.g. `dyn Future<Output = T>`)"""
        i = cls._assign_cache.get(st)
        if i is not None: return i
        i = st.find(' = ')
        if i >= 0 and ('<' in st[:i] or '(' in st[:i]):
            depth, j, n = 0, 0, len(st)
            i = -1
            while j < n:
                c = st[j]
                if c in '(<[': depth += 1
                elif c in ')]': depth -= 1
                elif c == '>' and j > 0 and st[j - 1] not in '-=': depth -= 1
                elif c == ' ' and depth == 0 and st.startswith(' = ', j):
                    i = j; break
                j += 1
        cls._assign_cache[st] = i
        return i

    @staticmethod
    def split_call(t):
        idx = t.rfind(') -> ')
        head, tail = t[:idx], t[idx + 5:]
        depth, j, instr = 1, len(head) - 1, False
        while j >= 0:
            c = head[j]
            if c == '"' and (j == 0 or head[j - 1] != '\\'): instr = not instr
            if not instr:
                if c == ')': depth += 1
                elif c == '(':
                    depth -= 1
                    if depth == 0: break
            j -= 1
        pre, argstr = head[:j], head[j + 1:]
        k = Executor.assign_split(pre)
        if k >= 0 and re.match(r'^[\w\s().*:&<>\[\]#\',=+{}@/-]+$', pre[:k]) and not pre.startswith('<'):
            dest, callee = pre[:k], pre[k + 3:]
        else:
            dest, callee = None, pre
        return dest, callee, argstr, tail

    def do_call(self, callee, args, f=None):
        c = re.sub(r'\{closure@[^}]*\}', '{closure}', callee)
        c = re.sub(r'\b(?:std|core|alloc)::(?:[a-z_0-9]+::)*(?=[A-Z])', '', c)   # std module paths before type/trait names
        if callee.startswith('move ') or callee.startswith('copy '):
            raise Unsupported('indirect call ' + callee)
        amb = None
        try:
            user = self.resolver.resolve_fn(self, callee) if self.resolver else None
        except Unsupported as e:
            user, amb = None, e
        if user is None and self.resolver and args:
            # a call through a type parameter (`<T as Trait>::m`, `<X as From<T>>::from`): dispatch on the value's own type
            gm = re.search(r'(?:^<|From<|Into<)([A-Z]\w?)(?= as |>>)', callee)
            if gm and gm.group(1) not in getattr(self, 'type_env', {}):
                a0 = dv(args[0])
                dyn = 'String' if isinstance(a0, (str, SymStr, SB)) or getattr(a0, 'rust_type', None) == 'String' else \
                    a0.ty if isinstance(a0, Adt) and a0.ty not in ('closure', 'Coroutine', 'Pin') else \
                    (a0.payload.split('::')[-1] if isinstance(a0, Opaque) and a0.tag == 'const' and isinstance(a0.payload, str) else None)
                if dyn:
                    callee2 = re.sub(r'\b' + gm.group(1) + r'\b', dyn, callee)
                    user = self.resolver.resolve_fn(self, callee2)
                    if user is not None: callee, amb = callee2, None
        if user is None and amb is None and self.resolver:
            user = self.resolver.resolve_fn(self, callee, allow_blanket=True)      # `impl<T> Trait for T` as the last resort
        for mdl in self.models:
            pat, fn = mdl[0], mdl[1]
            if re.search(pat, c):
                override = len(mdl) > 2 and mdl[2]
                if user is not None and not override:
                    break       # never let a library model shadow dropshot's own code
                self.models_used.add(pat)
                return fn(self, args, callee)
        if amb is not None: raise amb
        if user is None:
            # a tuple-variant constructor used as a function (`.map(Some)`)
            cparts = [x for x in strip_generics(c).split('::') if x]
            if len(cparts) >= 2 and cparts[-2] in self.L.enums and cparts[-1] in self.L.enums[cparts[-2]]:
                return self.mk_enum(cparts[-2], cparts[-1], list(args))
        if user is not None:
            m = re.match(r'^<(&+)', callee)
            if m:
                # blanket impls for references (`impl PartialEq<&B> for &A` etc.) forward to the impl for the referent
                for _ in range(len(m.group(1))):
                    args = [a.cell.v if isinstance(a, Ref) and isinstance(a.cell.v, Ref) else a for a in args]
            if user in self.summarize:
                return self.call_summarized(user, args)
            env = self.resolver.env_for.get(callee) if self.resolver else None
            if env:
                old = getattr(self, 'type_env', {})
                self.type_env = dict(old, **env)
                try:
                    return self.call_fn(user, args)
                finally:
                    self.type_env = old
            return self.call_fn(user, args)
        raise Unsupported(f'unmodelled call {callee} (in {" <- ".join(reversed(self.cur_fn[-3:])) if self.cur_fn else "?"})')

    def call_summarized(self, name, args):
        """state merging for a pure function returning bool: explore it in a nested run and return
        the disjunction of (path condition and result) as one term, so the caller forks at most once"""
        saved = (self.prefix, self.trace, self.pc, self.pending, list(self.cur_fn))
        saved_f = list(self.cur_f)
        outer = list(self.pc)
        results, work = [], [[]]
        try:
            while work:
                prefix = work.pop()
                self.prefix, self.trace, self.pc, self.pending = prefix, [], list(outer), []
                self.cur_fn = list(saved[4])
                self.cur_f = list(saved_f)
                try:
                    r = self.call_fn(name, args)
                except Infeasible:
                    r = None
                except Panic as p:
                    raise Unsupported(f'panic inside summarized function {name}: {p.msg}')
                work += self.pending
                if r is not None:
                    if not (isinstance(r, bool) or z3.is_bool(r)): raise Unsupported(f'summarized function {name} returned {r!r}')
                    results.append((self.pc[len(outer):], r))
        finally:
            self.prefix, self.trace, self.pc, self.pending, self.cur_fn = saved
            self.cur_f = saved_f
        terms = [zand(*(list(pc) + [r])) for pc, r in results]
        t = zor(*terms)
        return z3.simplify(t) if is_sym(t) else t

    def call_closure(self, clo, args):
        clo = dv(clo)
        if isinstance(clo, FnItem): return self.do_call(clo.callee, list(args))
        if isinstance(clo, PyClosure): return clo.fn(self, *args)
        if not isinstance(clo, Closure): raise Unsupported(f'call of non-closure {clo!r}')
        f = self.fns[clo.fn]
        env = Adt('closure', 0, {None: [Cell(u) for u in clo.upvars]})
        selfty = f.locals[f.args[0]]
        a0 = Ref(Cell(env)) if selfty.startswith('&') else env
        nparams = len(f.args) - 1
        if len(args) != nparams:
            if nparams == 1: args = [Tup([Cell(a) for a in args])]
            else: raise Unsupported(f'closure arity {clo.fn}')
        if clo.fn in self.summarize:
            return self.call_summarized(clo.fn, [a0] + list(args))
        return self.call_fn(clo.fn, [a0] + list(args))

    def poll_coroutine(self, co_cell):
        """one poll of a dropshot async block / coroutine stored in co_cell; returns Poll<..> value"""
        co = co_cell.v
        fn = co.fields['fn']
        pin = Adt('Pin', 0, {None: [Cell(Ref(co_cell))]})
        return self.call_fn(fn, [pin, Opaque('cx')])

"""Resolution of call targets and trait items to MIR bodies.

MIR item names carry the source span of their `impl` block
(`<impl at dropshot/src/router.rs:226:1: 226:49>`).  The impl header is read from /repo at
that span on every run, giving (trait, self type) for each impl; calls printed by rustc as
`Type::<..>::method`, `<Type as Trait>::method` or `function::<..>` are resolved through that
table.  A call that cannot be resolved is an unmodelled call (inconclusive), never a guess.
"""
import os
import re

from .core import Unsupported


def _strip_generics(s):
    out, depth = [], 0
    for i, c in enumerate(s):
        if c == '<': depth += 1
        elif c == '>' and i > 0 and s[i - 1] not in '-=':
            depth -= 1
        elif depth == 0: out.append(c)
    return ''.join(out)


def norm_ty(t):
    """normalise a type/trait text for comparison: no lifetimes, whitespace or module paths"""
    t = re.sub(r"'\w+\s*", '', t)
    t = re.sub(r'\s+', '', t)
    t = re.sub(r'(?:\w+::)+(\w)', r'\1', t)
    return t


def base_name(ty):
    """`&'a mut foo::Bar<T>` -> `Bar`"""
    t = ty.strip()
    while True:
        t2 = re.sub(r"^&('\w+ )?(mut )?", '', t).strip()
        t2 = re.sub(r'^dyn ', '', t2)
        if t2 == t: break
        t = t2
    t = _strip_generics(t).strip()
    if t.startswith('['): return 'slice'
    if t.startswith('('): return 'tuple'
    return t.split('::')[-1].strip()


class Resolver:
    def __init__(self, fns, repo):
        self.fns, self.repo = fns, repo
        self.src_cache = {}
        self.impls = {}        # span -> (trait_base or None, self_base, header text, full trait text)
        self.by_trait_full = {}
        self.fn_impl = {}
        self.env_for = {}
        self.crate_types = None
        self.by_type = {}      # (self_base, method) -> [names]
        self.by_trait = {}     # (trait_base, self_base, method) -> [names]
        self.free = {}         # fn name (last component) -> [names]
        self.assoc_types = {}  # (trait_base, self_base, name) -> type text
        self.cache = {}
        for n, f in fns.items():
            if f.kind != 'fn' or '{closure#' in n or '::promoted[' in n: continue
            m = re.search(r'<impl at ([^>]*?)>::(\w+)(#\d+)?$', n)
            if m:
                span, method = m.group(1), m.group(2)
                tr, selfb = self.impl_header(span, f)
                if selfb == '*': selfb = self.macro_self(f)
                self.by_type.setdefault((selfb, method), []).append(n)
                if tr:
                    self.by_trait.setdefault((tr, selfb, method), []).append(n)
                    self.by_trait_full.setdefault((self.impls[span][3], selfb, method), []).append(n)
                    self.fn_impl[n] = (tr, selfb)
                    al = self.aliases().get(selfb)
                    if al:      # `impl From<X> for HttpHandlerResult` is an impl for Result<..>
                        ab = base_name(al)
                        self.by_trait.setdefault((tr, ab, method), []).append(n)
                        self.by_trait_full.setdefault((self.impls[span][3], ab, method), []).append(n)
                else:
                    self.fn_impl[n] = (None, selfb)
            elif '<impl at' not in n:
                self.free.setdefault(n.split('::')[-1], []).append(n)
            else:
                # trait default methods etc: `mod::Trait::method`
                self.free.setdefault(n.split('::')[-1], []).append(n)
        # trait default (provided) methods: `handler::HttpCodedResponse::for_object`
        self.trait_default = {}
        for n, f in fns.items():
            if f.kind == 'fn' and '<impl at' not in n and '{closure#' not in n:
                parts = n.split('::')
                if len(parts) >= 2:
                    self.trait_default.setdefault((parts[-2], parts[-1]), []).append(n)

    def read_span(self, span):
        m = re.match(r'^(.*?):(\d+):(\d+): (\d+):(\d+)$', span)
        if not m: return ''
        path = os.path.join(self.repo, m.group(1))
        if path not in self.src_cache:
            try: self.src_cache[path] = open(path).read().split('\n')
            except OSError: self.src_cache[path] = None
        lines = self.src_cache[path]
        if lines is None: return ''
        l1, c1, l2, c2 = [int(m.group(i)) for i in (2, 3, 4, 5)]
        if l1 == l2: return lines[l1 - 1][c1 - 1:c2 - 1]
        return '\n'.join([lines[l1 - 1][c1 - 1:]] + lines[l1:l2 - 1] + [lines[l2 - 1][:c2 - 1]])

    def impl_header(self, span, f=None):
        if span in self.impls: return self.impls[span][:2]
        text = self.read_span(span)
        tr = selfb = None
        trfull = None
        t = ' '.join(text.split())
        if t.startswith('impl'):
            rest = t[4:].strip()
            if rest.startswith('<'):
                depth = 0
                for i, c in enumerate(rest):
                    if c == '<': depth += 1
                    elif c == '>' and rest[i - 1] not in '-=':
                        depth -= 1
                        if depth == 0:
                            rest = rest[i + 1:].strip(); break
            # split at top-level ' for '
            depth, cut = 0, None
            for i, c in enumerate(rest):
                if c == '<': depth += 1
                elif c == '>' and rest[i - 1] not in '-=': depth -= 1
                elif depth == 0 and rest.startswith(' for ', i):
                    cut = i; break
            if cut is not None:
                tr, selfb = base_name(rest[:cut]), base_name(re.split(r'\bwhere\b', rest[cut + 5:])[0])
                trfull = norm_ty(rest[:cut])
            else:
                selfb = base_name(re.split(r'\bwhere\b', rest)[0])
        else:
            # derive: the span covers the trait name inside #[derive(..)]; Self is the type of _1
            tr = base_name(t) if re.match(r'^[\w:]+$', t) else None
            trfull = tr
            if f is not None and f.args:
                selfb = base_name(f.locals[f.args[0]])
            if tr is None and f is not None and f.name.rsplit('::', 1)[-1].split('#')[0] == 'from' and len(f.args) == 1:
                # generated by a proc macro attribute such as thiserror's #[from]: impl From<Arg> for Ret
                tr, trfull, selfb = 'From', 'From<' + norm_ty(f.locals[f.args[0]]) + '>', base_name(f.ret or '')
        if selfb and '$' in selfb: selfb = '*'        # impl generated by macro_rules!: Self is a macro parameter
        if tr and '$' in tr: tr = trfull = '*'
        self.impls[span] = (tr, selfb, text, trfull)
        return tr, selfb

    # ------------------------------------------------------------------
    def resolve_fn(self, ex, callee, allow_blanket=False):
        key = (callee, tuple(sorted(ex_type_env(ex).items())), ex.cur_fn[-1] if ex.cur_fn and '::' not in callee else None, allow_blanket)
        if key in self.cache: return self.cache[key]
        self._allow_blanket = allow_blanket
        r = self._resolve_fn(ex, callee)
        self.cache[key] = r
        return r

    def impl_block(self, span):
        """source text of the impl block whose header is at `span`"""
        m = re.match(r'^(.*?):(\d+):(\d+): (\d+):(\d+)$', span)
        if not m: return ''
        self.read_span(span)
        lines = self.src_cache.get(os.path.join(self.repo, m.group(1)))
        if not lines: return ''
        text = '\n'.join(lines[int(m.group(4)) - 1:])
        i = text.find('{')
        if i < 0: return ''
        depth = 0
        for j in range(i, len(text)):
            if text[j] == '{': depth += 1
            elif text[j] == '}':
                depth -= 1
                if depth == 0: return text[i:j + 1]
        return ''

    def assoc_type(self, tr, selfb, name):
        """`type NAME = ...;` of `impl tr for selfb`, read from the source"""
        for span, (t, sb, text, full) in list(self.impls.items()):
            if t == tr and sb == selfb:
                mm = re.search(r'\btype\s+' + name + r'\s*=\s*([^;]+);', self.impl_block(span))
                if mm: return mm.group(1).strip()
        return None

    def blanket_impl(self, tr, method):
        """`impl<T> Trait for T`: the impl whose Self is one of its own type parameters"""
        out = []
        for n, (t, sb) in self.fn_impl.items():
            if t == tr and n.split('::')[-1].split('#')[0] == method and '{closure' not in n:
                span = re.search(r'<impl at ([^>]*?)>', n).group(1)
                hdr = ' '.join(self.impls[span][2].split())
                g = re.match(r'^impl\s*<([^>]*)>', hdr)
                params = [x.split(':')[0].strip() for x in g.group(1).split(',')] if g else []
                if sb in params: out.append(n)
        return out

    def _pick(self, cands, callee):
        if not cands: return None
        if len(cands) == 1: return cands[0]
        raise Unsupported(f'ambiguous call target {callee}: {cands[:4]}')

    def _resolve_fn(self, ex, callee):
        c = callee.strip()
        m = re.match(r'^<(.*) as (.*?)>::(\w+)(::<.*>)?$', c, re.S)
        if m:
            # careful: ` as ` split at top level
            inner = c[1:c.rfind('>::')]
            depth, cut = 0, None
            for i, ch in enumerate(inner):
                if ch in '<(': depth += 1
                elif ch in ')': depth -= 1
                elif ch == '>' and inner[i - 1] not in '-=': depth -= 1
                elif depth == 0 and inner.startswith(' as ', i): cut = i
            if cut is None: return None
            selfty = inner[:cut].strip()
            tr = base_name(inner[cut + 4:])
            method = m.group(3)
            pm = re.match(r'^<(.*) as (.*)>::(\w+)$', selfty)
            if pm:
                # associated-type projection, e.g. `<Self as HttpCodedResponse>::Body`
                ps = base_name(pm.group(1)); ps = ex_type_env(ex).get(ps, ps)
                at = self.assoc_type(base_name(pm.group(2)), ps, pm.group(3))
                if at is None: return None
                selfty = at
            selfb = base_name(selfty)
            selfb = ex_type_env(ex).get(selfb, selfb)
            cands = self.by_trait.get((tr, selfb, method))
            if cands and re.match(r'^[A-Z]\d?$', selfb or ''):
                # a one-letter Self is almost always a type parameter of the calling function; a local type of that name
                # (e.g. `struct V;` inside some function) only counts when we are executing inside that function
                cur = ex.cur_fn[-1] if ex.cur_fn else ''
                cands = [n for n in cands if cur.startswith(n.split('::<impl')[0] + '::') or cur == n.split('::<impl')[0]]
            if cands and len(cands) > 1:
                want = norm_ty(inner[cut + 4:])
                full = self.by_trait_full.get((want, selfb, method))
                if full: cands = full
                else:
                    # compare with the generic arguments of the trait's own argument dropped: From<HttpResponseOk<T>> ~ From<HttpResponseOk>
                    def outer(t):
                        m2 = re.match(r'^(\w+)<(.*)>$', t)
                        return f'{m2.group(1)}<{base_name(m2.group(2))}>' if m2 else t
                    sel = [n for n in cands if outer(self.impls[re.search(r'<impl at ([^>]*?)>', n).group(1)][3] or '') == outer(want)]
                    if sel: cands = sel
            if cands: return self._pick(cands, callee)
            # provided (default) trait method: runs with Self bound to the implementing type
            cands = self.trait_default.get((tr, method))
            if cands and (tr, selfb) in self.trait_impls():
                self.env_for[callee] = {'Self': selfb}
                return self._pick(cands, callee)
            # blanket impl (`impl<T> Trait for T`) when Self is not a type with its own impl
            if self.crate_types is None: self.macro_self(Dummy)
            bl = self.blanket_impl(tr, method)
            is_param = bool(re.match(r'^[A-Z]\d?$', selfb or ''))
            # Self is a type parameter of the caller: first let the executor dispatch on the value's own type; the blanket impl is the last resort
            if bl and ((selfb not in self.crate_types and not is_param) or (is_param and getattr(self, '_allow_blanket', False))): return self._pick(bl, callee)
            return None
        c2 = _strip_generics(c)
        parts = [p for p in c2.split('::') if p]
        if not parts: return None
        if len(parts) >= 2:
            cands = self.by_type.get((parts[-2], parts[-1]))
            if cands:
                inh = [n for n in cands if self.fn_impl.get(n, (None,))[0] is None]
                return self._pick(inh or cands, callee)
        if parts[0] in ('core', 'std', 'alloc'): return None
        cands = [n for n in self.free.get(parts[-1], []) if '<impl at' not in n]
        if len(parts) >= 2:
            # module-qualified free function: the MIR item path must end with the callee's path
            suffix = '::' + '::'.join(parts)
            cands = [n for n in cands if ('::' + n).endswith(suffix)]
        elif ex.cur_fn:
            # a bare function name lives in the caller's module (or the crate root)
            cur = ex.cur_fn[-1]
            mod = cur.split('::<impl')[0] if '<impl' in cur else (cur.split('::{closure')[0].rsplit('::', 1)[0] if '::' in cur.split('::{closure')[0] else '')
            same = [n for n in cands if (n.rsplit('::', 1)[0] if '::' in n else '') == mod]
            if same: cands = same
            elif len(cands) > 1: cands = [n for n in cands if '::' not in n] or cands
        if cands: return self._pick(cands, callee)
        return None

    def aliases(self):
        if not hasattr(self, '_aliases'):
            from . import layout
            self._aliases = layout.load(self.repo).aliases
        return self._aliases

    def macro_self(self, f):
        """Self of an impl generated by macro_rules! (`impl $T`): the crate type named first in the signature"""
        if self.crate_types is None:
            from . import layout
            L = layout.load(self.repo)
            self.crate_types = set(L.structs) | set(L.enums)
        for t in [f.locals.get(a, '') for a in f.args] + [f.ret or '']:
            for w in re.findall(r'[A-Z]\w+', t):
                if w in self.crate_types and w not in ('Result', 'Option'): return w
        return '*'

    def macro_self_types(self):
        """types that have macro_rules!-generated impls (their Self is a macro parameter in the source)"""
        if not hasattr(self, '_mst'):
            self._mst = set()
            for n, f in self.fns.items():
                m = re.search(r'<impl at ([^>]*?)>::\w+$', n)
                if m and self.impl_header(m.group(1), f)[1] == '*':
                    for t in [f.locals.get(a, '') for a in f.args] + [f.ret or '']:
                        b = base_name(t)
                        if b and b[0].isupper(): self._mst.add(b)
        return self._mst

    def impl_of(self, name):
        m = re.search(r'<impl at ([^>]*?)>', name)
        return self.impl_header(m.group(1)) if m else (None, None)

    def trait_impls(self):
        if not hasattr(self, '_ti'):
            self._ti = set()
            for n, f in self.fns.items():
                m = re.search(r'<impl at ([^>]*?)>', n)
                if m:
                    tr, sb = self.impl_header(m.group(1), f)
                    if tr: self._ti.add((tr, sb))
        return self._ti

    def resolve_const(self, ex, c):
        """associated consts of dropshot types: `ErrorStatusCode::NOT_FOUND`, `<Self as Trait>::CONST`"""
        m = re.match(r'^<(.*) as (.*?)>::(\w+)$', c)
        if m:
            selfb, tr, nm = base_name(m.group(1)), base_name(m.group(2)), m.group(3)
            selfb = ex_type_env(ex).get(selfb, selfb)
            for n in self.fns:
                if n.startswith('const ') and n.endswith('>::' + nm):
                    t, s = self.impl_of(n)
                    if t == tr and s == selfb: return ex.call_fn(n, [])
            return None
        c2 = _strip_generics(c)
        # free constants / statics of the crate: `http_util::CONTENT_TYPE_JSON`
        if ('const ' + c2) in self.fns: return ex.call_fn('const ' + c2, [])
        suffix = [n for n in self.fns if n.startswith('const ') and '<impl' not in n and ('::' + n[6:]).endswith('::' + c2)]
        if len(suffix) == 1: return ex.call_fn(suffix[0], [])
        parts = [p_ for p_ in c2.split('::') if p_]
        if not parts: return None
        # simple literal constants are not dumped as MIR items: read them from the source
        hits = [v for (stem, nm), v in ex.L.consts.items() if nm == parts[-1] and (len(parts) < 2 or parts[-2] == stem or not parts[-2][0].islower())]
        if len(parts) >= 2 and parts[-2][0].islower():
            hits = [v for (stem, nm), v in ex.L.consts.items() if nm == parts[-1] and stem == parts[-2]]
        if not hits and len(parts) >= 3:      # function-local const: `module::function::NAME`
            hits = [v for (stem, nm), v in ex.L.consts.items() if nm == parts[-1] and stem == parts[-3]]
        if len(hits) == 1 and parts[0] not in ('http', 'std', 'core', 'hyper'):
            v = hits[0]
            if isinstance(v, tuple) and v[0] == 'bytes':
                from .core import Ref, Cell, PVec
                return Ref(Cell(PVec([Cell(b) for b in v[1]])))
            return v
        if len(parts) >= 2:
            ty, nm = parts[-2], parts[-1]
            cands = []
            for n in self.fns:
                if n.startswith('const ') and n.endswith('>::' + nm):
                    t, s = self.impl_of(n)
                    if s == ty: cands.append(n)
            if len(cands) == 1: return ex.call_fn(cands[0], [])
            if len(cands) > 1:
                inh = [n for n in cands if self.fn_impl.get(n, (None,))[0] is None]
                if len(inh) == 1: return ex.call_fn(inh[0], [])
        return None


class Dummy:
    locals, args, ret = {}, [], ''


def ex_type_env(ex):
    return getattr(ex, 'type_env', {})

"""Library models: the trusted base of MIRSYM (DESIGN.md §4).

dropshot's own functions are always executed from their MIR.  Calls that leave the crate are
replaced by the models below.  Each entry is (regex over the printed callee, function[, override]).
A model never shadows a function that resolves to dropshot's own MIR unless `override` is set
(used only for assume/guarantee contracts, stated in the evidence).
"""
import re
import z3

from .core import (Adt, Cell, Closure, Opaque, Panic, PMap, PSet, PVec, Ref, SB, SymStr, Tup, Unsupported, dv, is_sym, lit,
                   zand, znot, zor, zbool, StrSort)


# ------------------------------------------------------------------ iterators
class It:
    """lazy iterator model: list | filter | map | filter_map | flat_map | chain | skip | enumerate"""
    def __init__(self, kind, src=None, clo=None, extra=None):
        self.kind, self.src, self.clo, self.extra = kind, src, clo, extra
        self.pos = 0
        self.inner = None

    def next(self, ex):
        k = self.kind
        if k == 'list':
            if self.pos < len(self.src):
                self.pos += 1
                return self.src[self.pos - 1]
            return None
        if k == 'chain':
            x = self.src.next(ex)
            if x is not None: return x
            return self.extra.next(ex)
        if k == 'take':
            if not isinstance(self.extra, int): raise Unsupported(f'take({self.extra!r})')
            if self.pos >= self.extra: return None
            self.pos += 1
            return self.src.next(ex)
        if k == 'enumerate':
            x = self.src.next(ex)
            if x is None: return None
            self.pos += 1
            return Tup([Cell(self.pos - 1), Cell(x)])
        if k == 'flat_map':
            while True:
                if self.inner is not None:
                    x = self.inner.next(ex)
                    if x is not None: return x
                    self.inner = None
                y = self.src.next(ex)
                if y is None: return None
                self.inner = as_iter(ex, ex.call_closure(self.clo, [y]))
        while True:
            x = self.src.next(ex)
            if x is None: return None
            if k == 'filter':
                if ex.truth(ex.call_closure(self.clo, [Ref(Cell(x))])): return x
            elif k == 'map':
                return ex.call_closure(self.clo, [x])
            elif k == 'filter_map':
                r = ex.call_closure(self.clo, [x])
                if r.discr == 1: return ex.payload(r)
            elif k == 'map_py':
                return self.extra(x)
            elif k == 'skip':
                if self.pos < self.extra:
                    self.pos += 1; continue
                return x
            else:
                raise Unsupported('iterator kind ' + k)

    def remaining(self, ex):
        out = []
        while True:
            x = self.next(ex)
            if x is None: return out
            out.append(x)


def as_iter(ex, v, by_value=False):
    v0 = v
    v = dv(v)
    if isinstance(v, It): return v
    if isinstance(v, PVec):
        if by_value and not isinstance(v0, Ref): return It('list', [c.v for c in v.items])
        return It('list', [Ref(c) for c in v.items])
    if isinstance(v, PSet):
        if by_value and not isinstance(v0, Ref): return It('list', [k for k, _ in v.items])
        return It('list', [Ref(Cell(k)) for k, _ in v.items])
    if isinstance(v, PMap):
        if by_value and not isinstance(v0, Ref): return It('list', [Tup([Cell(k), Cell(c.v)]) for k, c in v.items])
        return It('list', [Tup([Cell(Ref(Cell(k))), Cell(Ref(c))]) for k, c in v.items])
    if isinstance(v, Adt) and v.ty == 'Option':
        return It('list', [ex.payload(v)] if v.discr == 1 else [])
    if type(v).__name__ == 'HMap':
        # http::HeaderMap's owning iterator: grouped by name, the name only alongside the first value of each name
        items, order = [], []
        for n, _ in v.entries:
            if n not in order: order.append(n)
        for n in order:
            first = True
            for k, val in v.entries:
                if k == n:
                    items.append(Tup([Cell(ex.some(n) if first else ex.none()), Cell(val)])); first = False
        return It('list', items)
    raise Unsupported('as_iter of ' + repr(v))


def m_into_iter(ex, args, callee):
    by_value = not callee.startswith('<&')
    return as_iter(ex, args[0], by_value)


def m_iter_next(ex, args, callee):
    it = dv(args[0])
    if isinstance(it, Opaque) and it.tag == 'zst' and 'iter::Empty<' in str(it.payload): return ex.none()
    if not isinstance(it, It): it = as_iter(ex, it) if isinstance(it, (PVec, PMap)) else it
    if not isinstance(it, It): raise Unsupported(f'next() of {it!r} ({callee[:80]})')
    x = it.next(ex)
    return ex.none() if x is None else ex.some(x)


def m_any(ex, args, callee):
    it = as_iter(ex, args[0])
    while True:
        x = it.next(ex)
        if x is None: return False
        if ex.truth(ex.call_closure(args[1], [x])): return True


def m_all(ex, args, callee):
    it = as_iter(ex, args[0])
    while True:
        x = it.next(ex)
        if x is None: return True
        if not ex.truth(ex.call_closure(args[1], [x])): return False


def m_find(ex, args, callee):
    it = as_iter(ex, args[0])
    while True:
        x = it.next(ex)
        if x is None: return ex.none()
        if ex.truth(ex.call_closure(args[1], [Ref(Cell(x))])): return ex.some(x)


def m_nth(ex, args, callee):
    it = as_iter(ex, args[0]); n = args[1]
    x = None
    for _ in range(n + 1):
        x = it.next(ex)
        if x is None: return ex.none()
    return ex.some(x)


def m_collect(ex, args, callee):
    it = as_iter(ex, args[0])
    m = re.search(r'collect::<(.*)>$', callee, re.S)
    target = m.group(1) if m else ''
    if target.startswith('Result<') or target.startswith('std::result::Result<'):
        out = []
        while True:
            x = it.next(ex)
            if x is None: return ex.ok(PVec([Cell(v) for v in out]))
            if x.discr == 1: return ex.err(ex.payload(x))
            out.append(ex.payload(x))
    items = it.remaining(ex)
    if 'BTreeSet' in target or 'HashSet' in target:
        s = PSet()
        for x in items: s.put(key_of(x), x)
        return s
    if 'BTreeMap' in target or 'HashMap' in target or 'IndexMap' in target:
        mp = PMap()
        for x in items:
            mp.put(key_of(x.items[0].v), x.items[1].v)
        return mp
    return PVec([Cell(v) for v in items])


def key_of(v):
    v = dv(v)
    if isinstance(v, (str, int, bool)): return v
    raise Unsupported(f'map key {v!r} is not concrete')


# ------------------------------------------------------------------ equality / ordering
def str_term(a):
    if isinstance(a, SymStr): return a.term
    if isinstance(a, str): return lit(a)
    raise Unsupported(f'not a string: {a!r}')


def val_eq(ex, a, b):
    a, b = dv(a), dv(b)
    if isinstance(a, str) and isinstance(b, str): return a == b
    if isinstance(a, (SymStr, str)) and isinstance(b, (SymStr, str)): return str_term(a) == str_term(b)
    if isinstance(a, SB) or isinstance(b, SB): return sb_eq(a, b)
    if is_sym(a) or is_sym(b):
        if isinstance(a, bool) or isinstance(b, bool): return zbool(a) == zbool(b)
        return a == b
    if isinstance(a, (int, bool, float)) and isinstance(b, (int, bool, float)): return a == b
    if isinstance(a, Tup) and isinstance(b, Tup):
        return zand(*[val_eq(ex, x.v, y.v) for x, y in zip(a.items, b.items)])
    if isinstance(a, PVec) and isinstance(b, PVec):
        if len(a.items) != len(b.items): return False
        return zand(*[val_eq(ex, x.v, y.v) for x, y in zip(a.items, b.items)])
    if isinstance(a, Adt) and isinstance(b, Adt) and a.ty == b.ty:
        if a.discr != b.discr: return False
        key = None if None in a.fields else a.discr
        fa, fb = a.fields.get(key, []), b.fields.get(key, [])
        return zand(*[val_eq(ex, x.v, y.v) for x, y in zip(fa, fb)])
    if isinstance(a, Opaque) and isinstance(b, Opaque):
        if a.tag == b.tag and a.payload is b.payload: return True
        if is_sym(a.payload) and is_sym(b.payload): return a.payload == b.payload
        if a.tag == 'const' and b.tag == 'const': return a.payload == b.payload
    raise Unsupported(f'equality of {a!r} and {b!r}')


def sb_bytes(x):
    if isinstance(x, SB): return x.bs
    if isinstance(x, str): return list(x.encode())
    if isinstance(x, PVec): return [c.v for c in x.items]
    raise Unsupported(f'not bytes: {x!r}')


def sb_eq(a, b):
    ba, bb = sb_bytes(a), sb_bytes(b)
    if len(ba) != len(bb): return False
    return zand(*[(x == y) for x, y in zip(ba, bb)])


def m_eq(ex, args, callee):
    r = val_eq(ex, args[0], args[1])
    if callee.endswith('::ne'): r = znot(r)
    return r


def lex_cmp(ex, op, a, b):
    a, b = dv(a), dv(b)
    if (isinstance(a, SB) and isinstance(b, (SB, str))) or (isinstance(b, SB) and isinstance(a, str)):
        # str / String order: byte-wise lexicographic, a proper prefix sorts first
        xs, ys = sb_bytes(a), sb_bytes(b)
        b8_ = lambda v: v if z3.is_expr(v) else z3.BitVecVal(v, 8)
        n = min(len(xs), len(ys))
        eq_upto = lambda i: zand(*[b8_(xs[j]) == b8_(ys[j]) for j in range(i)])
        lt = zor(*([zand(eq_upto(i), z3.ULT(b8_(xs[i]), b8_(ys[i]))) for i in range(n)] + [zand(eq_upto(n), len(xs) < len(ys))]))
        gt = zor(*([zand(eq_upto(i), z3.UGT(b8_(xs[i]), b8_(ys[i]))) for i in range(n)] + [zand(eq_upto(n), len(xs) > len(ys))]))
        eq = zand(eq_upto(n), len(xs) == len(ys))
        return {'Lt': lt, 'Gt': gt, 'Le': zor(lt, eq), 'Ge': zor(gt, eq)}[op]
    if isinstance(a, Tup) and isinstance(b, Tup):
        xs, ys = [c.v for c in a.items], [c.v for c in b.items]
        if not xs: return op in ('Le', 'Ge')
        strict = {'Le': 'Lt', 'Ge': 'Gt'}.get(op, op)
        return zor(lex_cmp(ex, strict, xs[0], ys[0]),
                   zand(val_eq(ex, xs[0], ys[0]), lex_cmp(ex, op, Tup(a.items[1:]), Tup(b.items[1:]))))
    if isinstance(a, Adt) and isinstance(b, Adt) and a.ty == b.ty == 'Version':
        # semver precedence = lexicographic order of (major, minor, patch, pre, build); see props/vermodel.py
        return lex_cmp(ex, op, Tup(a.fields[None]), Tup(b.fields[None]))
    return ex.binop(op, a, b, None)


def m_cmp(op):
    def f(ex, args, callee):
        return lex_cmp(ex, op, args[0], args[1])
    return f


def m_ord_cmp(ex, args, callee):
    a, b = dv(args[0]), dv(args[1])
    lt, eq = lex_cmp(ex, 'Lt', a, b), val_eq(ex, a, b)
    if ex.truth(lt): return ex.mk_enum('Ordering', 'Less')
    if ex.truth(eq): return ex.mk_enum('Ordering', 'Equal')
    return ex.mk_enum('Ordering', 'Greater')


def m_max(ex, args, callee):
    a, b = args[0], args[1]
    return b if ex.truth(lex_cmp(ex, 'Le', a, b)) else a


def m_min(ex, args, callee):
    a, b = args[0], args[1]
    return a if ex.truth(lex_cmp(ex, 'Le', a, b)) else b


def ident(ex, args, callee): return dv(args[0])
def ident_ref(ex, args, callee): return args[0]
def unit(ex, args, callee): return Tup([])


def m_smart_deref(ex, args, callee):
    """<Arc<T>/Box<T> as Deref>::deref(&ptr) -> &T   (smart pointers are modelled as a Ref to the pointee)"""
    a = args[0]
    if isinstance(a, Ref) and isinstance(a.cell.v, Ref): return a.cell.v
    return a


# ------------------------------------------------------------------ maps / sets
def map_lookup(ex, mp, k):
    """returns Cell or None; a symbolic key forks over 'equals key i' / 'absent'"""
    k = dv(k)
    if isinstance(k, (str, int)) and not isinstance(k, bool):
        return mp.find(k)
    if isinstance(k, SymStr):
        conds = [k.term == lit(kk) for kk, _ in mp.items]
        conds.append(z3.And([z3.Not(c) for c in conds]) if conds else z3.BoolVal(True))
        i = ex.branch(conds)
        return mp.items[i][1] if i < len(mp.items) else None
    raise Unsupported(f'map key {k!r}')


def m_map_get(ex, args, callee):
    c = map_lookup(ex, dv(args[0]), args[1])
    return ex.some(Ref(c)) if c is not None else ex.none()


def m_map_contains(ex, args, callee):
    return map_lookup(ex, dv(args[0]), args[1]) is not None


def m_map_insert(ex, args, callee):
    mp = dv(args[0]); old, had = mp.put(key_of(args[1]), args[2])
    return ex.some(old) if had else ex.none()


def m_entry(ex, args, callee): return Opaque('entry', (dv(args[0]), key_of(args[1])))


def m_or_insert_with(ex, args, callee):
    mp, k = args[0].payload
    c = mp.find(k)
    if c is None:
        mp.put(k, ex.call_closure(args[1], [])); c = mp.find(k)
    return Ref(c)


def m_or_default(ex, args, callee):
    mp, k = args[0].payload
    c = mp.find(k)
    if c is None:
        m = re.search(r'Entry::<.*?, (.*)>::or_default$', callee, re.S)
        mp.put(k, PVec() if m and 'Vec<' in m.group(1) else PMap()); c = mp.find(k)
    return Ref(c)


def m_set_insert(ex, args, callee):
    s = dv(args[0]); k = key_of(args[1]); had = s.find(k) is not None
    if not had: s.put(k, k)
    return not had


# ------------------------------------------------------------------ Option / Result
def m_get_or_insert(ex, args, callee):
    cell = args[0].cell
    o = cell.v
    if o.discr == 0: cell.v = o = ex.some(args[1])
    return Ref(o.fields[1][0])


def m_get_or_insert_with(ex, args, callee):
    cell = args[0].cell
    o = cell.v
    if o.discr == 0: cell.v = o = ex.some(ex.call_closure(args[1], []))
    return Ref(o.fields[1][0])


def opt(args): return dv(args[0]) if not isinstance(args[0], Adt) else args[0]


def m_ok_or_else(ex, args, callee):
    o = args[0]
    return ex.ok(ex.payload(o)) if o.discr == 1 else ex.err(ex.call_closure(args[1], []))


def m_ok_or(ex, args, callee):
    o = args[0]
    return ex.ok(ex.payload(o)) if o.discr == 1 else ex.err(args[1])


def m_opt_map(ex, args, callee):
    o = args[0]
    return ex.some(ex.call_closure(args[1], [ex.payload(o)])) if o.discr == 1 else ex.none()


def m_map_or(ex, args, callee):
    o = args[0]
    good = 0 if o.ty == 'Result' else 1
    return ex.call_closure(args[2], [ex.payload(o)]) if o.discr == good else args[1]


def m_map_or_else(ex, args, callee):
    o = args[0]
    good = 0 if o.ty == 'Result' else 1
    if o.discr == good: return ex.call_closure(args[2], [ex.payload(o)])
    return ex.call_closure(args[1], [ex.payload(o)] if o.ty == 'Result' else [])


def m_opt_filter(ex, args, callee):
    o = args[0]
    if o.discr == 1 and ex.truth(ex.call_closure(args[1], [Ref(o.fields[1][0])])): return o
    return ex.none()


def m_opt_or(ex, args, callee):
    return args[0] if args[0].discr == 1 else args[1]


def m_transpose(ex, args, callee):
    o = args[0]
    if o.ty == 'Option':                      # Option<Result<T,E>> -> Result<Option<T>,E>
        if o.discr == 0: return ex.ok(ex.none())
        r = ex.payload(o)
        return ex.ok(ex.some(ex.payload(r))) if r.discr == 0 else ex.err(ex.payload(r))
    if o.discr == 1: return ex.some(ex.err(ex.payload(o)))      # Result<Option<T>,E> -> Option<Result<T,E>>
    inner = ex.payload(o)
    return ex.some(ex.ok(ex.payload(inner))) if inner.discr == 1 else ex.none()


def m_opt_and_then(ex, args, callee):
    o = args[0]
    return ex.call_closure(args[1], [ex.payload(o)]) if o.discr == 1 else ex.none()


def m_opt_or_else(ex, args, callee):
    o = args[0]
    return o if o.discr == 1 else ex.call_closure(args[1], [])


def m_unwrap_or(ex, args, callee):
    o = args[0]
    if o.ty == 'Result': return ex.payload(o) if o.discr == 0 else args[1]
    return ex.payload(o) if o.discr == 1 else args[1]


def m_unwrap_or_default(ex, args, callee):
    o = args[0]
    good = 0 if o.ty == 'Result' else 1
    if o.discr == good: return ex.payload(o)
    m = re.match(r'^(?:std::\w+::)?(?:Option|Result)::<(.*)>::unwrap_or_default$', callee, re.S)
    from .mir import split_top
    t = split_top(m.group(1))[0] if m else '?'
    return default_for_type(ex, re.sub(r'^std::\w+::', '', t.strip()))


def m_unwrap_or_else(ex, args, callee):
    o = args[0]
    if o.ty == 'Result': return ex.payload(o) if o.discr == 0 else ex.call_closure(args[1], [ex.payload(o)])
    return ex.payload(o) if o.discr == 1 else ex.call_closure(args[1], [])


def m_res_map(ex, args, callee):
    r = args[0]
    return ex.ok(ex.call_closure(args[1], [ex.payload(r)])) if r.discr == 0 else r


def m_map_err(ex, args, callee):
    r = args[0]
    return r if r.discr == 0 else ex.err(ex.call_closure(args[1], [ex.payload(r)]))


def m_res_and_then(ex, args, callee):
    r = args[0]
    return ex.call_closure(args[1], [ex.payload(r)]) if r.discr == 0 else r


def m_res_ok(ex, args, callee):
    r = args[0]
    return ex.some(ex.payload(r)) if r.discr == 0 else ex.none()


def m_try_branch(ex, args, callee):
    r = args[0]
    if not isinstance(r, Adt): raise Unsupported(f'Try::branch of {r!r} ({callee})')
    if r.ty == 'Result':
        if r.discr == 0: return ex.mk_enum('ControlFlow', 'Continue', [ex.payload(r)])
        return ex.mk_enum('ControlFlow', 'Break', [ex.err(ex.payload(r))])
    if r.ty == 'Option':
        if r.discr == 1: return ex.mk_enum('ControlFlow', 'Continue', [ex.payload(r)])
        return ex.mk_enum('ControlFlow', 'Break', [ex.none()])
    raise Unsupported('Try::branch on ' + r.ty)


def m_from_residual(ex, args, callee):
    r = args[0]
    if not isinstance(r, Adt): raise Unsupported(f'from_residual of {r!r} in {callee}')
    if r.ty == 'Option': return ex.none()
    e = ex.payload(r)
    m = re.match(r'^<(?:std::result::)?Result<(.*)> as FromResidual<(?:std::result::)?Result<Infallible, (.*)>>>::from_residual$',
                 re.sub(r'\s+', ' ', callee))
    if m:
        # `?` applies From::from to the error: identity unless the types differ
        from .mir import split_top
        tys = split_top(m.group(1))
        if len(tys) == 2 and tys[1].strip() != m.group(2).strip():
            e = ex.do_call(f'<{tys[1].strip()} as From<{m.group(2).strip()}>>::from', [e])
    return ex.err(e)


def m_expect(ex, args, callee):
    r = args[0]
    good = 0 if r.ty == 'Result' else 1
    if r.discr != good: raise Panic('expect/unwrap failed: ' + callee[:40])
    return ex.payload(r)


def m_opt_take(ex, args, callee):
    cell = args[0].cell
    o = cell.v; cell.v = ex.none(); return o


def m_opt_replace(ex, args, callee):
    cell = args[0].cell
    o = cell.v; cell.v = ex.some(args[1]); return o


def m_as_ref(ex, args, callee):
    o = dv(args[0])
    if o.ty == 'Option': return ex.some(Ref(o.fields[1][0])) if o.discr == 1 else ex.none()
    if o.ty == 'Result':
        return ex.ok(Ref(o.fields[0][0])) if o.discr == 0 else ex.err(Ref(o.fields[1][0]))
    raise Unsupported('as_ref on ' + o.ty)


def m_as_deref(ex, args, callee):
    o = dv(args[0])
    return ex.some(Ref(o.fields[1][0])) if o.discr == 1 else ex.none()


# ------------------------------------------------------------------ concrete strings
def rng(a):
    return [c.v for c in a.fields[None]]


StrCharBoundary = None


def m_str_index(ex, args, callee):
    s, r = dv(args[0]), args[1]
    if isinstance(s, SymStr):
        # slicing an opaque string by byte offsets: panics when an offset is beyond the end or inside a multi-byte character
        global StrCharBoundary
        if StrCharBoundary is None: StrCharBoundary = z3.Function('str_is_char_boundary', StrSort, z3.IntSort(), z3.BoolSort())
        n = StrLen(s.term)
        offs = [o if z3.is_expr(o) and z3.is_int(o) else (z3.BV2Int(o) if z3.is_expr(o) else z3.IntVal(o)) for o in rng(r)]
        ok = z3.And([z3.And(o <= n, StrCharBoundary(s.term, o)) for o in offs])
        if not ex.truth(ok): raise Panic('byte index is out of bounds or not a char boundary')
        return SymStr(z3.FreshConst(StrSort, 'slice'))
    if not isinstance(s, str): raise Unsupported('index of non-concrete str')
    b = s.encode()
    if 'RangeFrom' in callee: return b[rng(r)[0]:].decode()
    if 'RangeTo' in callee: return b[:rng(r)[0]].decode()
    lo, hi = rng(r); return b[lo:hi].decode()


def m_find_char(ex, args, callee):
    s = dv(args[0])
    if not isinstance(s, str): raise Unsupported('find on symbolic str')
    i = s.find(args[1]); return ex.some(len(s[:i].encode())) if i >= 0 else ex.none()


StrLen = z3.Function('str_len', StrSort, z3.IntSort())      # byte length of an opaque string (>= 0; nothing else is known about it)


def str_len(s):
    if isinstance(s, str): return len(s.encode())
    if isinstance(s, SB): return len(s.bs)
    if isinstance(s, SymStr): return StrLen(s.term)
    raise Unsupported(f'length of {s!r}')


StrTrim = z3.Function('str_trim', StrSort, StrSort)            # an opaque string without its surrounding whitespace
StrOuterWs = z3.Function('str_has_outer_whitespace', StrSort, z3.BoolSort())


def m_str_trim_opaque(ex, args, callee):
    """trim / trim_start / trim_end of an opaque string: the same string when it has no surrounding whitespace, another one otherwise"""
    s = dv(args[0])
    if isinstance(s, str): return {'trim': s.strip, 'trim_start': s.lstrip, 'trim_end': s.rstrip}[callee.split('::')[-1]]()
    if not isinstance(s, SymStr): raise Unsupported(f'{callee} of {s!r}')
    if ex.truth(StrOuterWs(s.term)):
        t = StrTrim(s.term)
        ex.assume(t != s.term)
        return SymStr(t)
    return s


def m_str_len(ex, args, callee):
    s = dv(args[0])
    n = str_len(s)
    if isinstance(s, SymStr): ex.assume(n >= 0)
    return n


def need_concrete_str(v):
    if not isinstance(v, str): raise Unsupported(f'join of non-concrete string {v!r}')
    return v


def m_eq_ignore_ascii_case_concrete(ex, args, callee):
    a, b = dv(args[0]), dv(args[1])
    if not (isinstance(a, str) and isinstance(b, str)): raise Unsupported(f'{callee}: string content is not concrete')
    low = lambda s: ''.join(chr(ord(c) + 32) if 'A' <= c <= 'Z' else c for c in s)
    return low(a) == low(b)


def m_u8_class(ex, args, pred):
    b = dv(args[0])
    if isinstance(b, int): b = z3.BitVecVal(b, 8)
    if not z3.is_bv(b): raise Unsupported(f'byte class of {b!r}')
    return pred(b)


def _trim_start_matches(s, p):
    if not isinstance(p, str): raise Unsupported('trim_start_matches: pattern is not concrete')
    while p and s.startswith(p): s = s[len(p):]
    return s


def m_starts_with(ex, args, callee):
    s, pat = dv(args[0]), dv(args[1])
    if isinstance(s, str) and isinstance(pat, str): return s.startswith(pat)
    if isinstance(s, SB) and isinstance(pat, str):
        pb = pat.encode()
        if len(pb) > len(s.bs): return False
        return zand(*[(b == c_) for b, c_ in zip(s.bs, pb)])
    raise Unsupported(f'{callee}: string content is not concrete')


def m_ends_with_char(ex, args, callee):
    s, ch = dv(args[0]), dv(args[1])
    if isinstance(s, str) and isinstance(ch, str): return s.endswith(ch)
    if isinstance(s, SB) and isinstance(ch, (str, int)):
        code = ord(ch) if isinstance(ch, str) else ch
        if code >= 0x80: raise Unsupported('ends_with a multi-byte char on bytes')
        if not s.bs: return False
        last = s.bs[-1]
        return (last == code) if z3.is_expr(last) else (last == code)
    raise Unsupported(f'{callee}: string content is not concrete')


def m_saturating_add(ex, args, callee):
    a, b = dv(args[0]), dv(args[1])
    bits = 32 if 'u32' in callee else 64
    top = (1 << bits) - 1
    if isinstance(a, int) and isinstance(b, int): return min(a + b, top)
    if z3.is_bv(a) or z3.is_bv(b):
        a = a if z3.is_bv(a) else z3.BitVecVal(a, bits); b = b if z3.is_bv(b) else z3.BitVecVal(b, bits)
        return z3.If(z3.BVAddNoOverflow(a, b, False), a + b, z3.BitVecVal(top, bits))
    r = a + b
    return z3.If(r > top, z3.IntVal(top), r)


def need_str(f):
    def g(ex, args, callee):
        s = dv(args[0])
        if not isinstance(s, str): raise Unsupported(f'{callee}: string content is not concrete')
        return f(s, *[dv(a) for a in args[1:]])
    return g


def m_fmt_argument(ex, args, callee):
    kind = re.search(r'new_(\w+)', callee).group(1)
    return Opaque('fmtarg', (kind, args[0]))


def m_fmt_arguments(ex, args, callee):
    return Opaque('fmtargs', tuple(args))


def render_fmt(ex, fa):
    """render core::fmt::Arguments built from the packed template rustc emits (length-prefixed literal runs,
    0xC0 = next argument with the default spec, 0 = end) when every argument is a concrete string shown with Display;
    None if it cannot be rendered (the result is then an opaque string)"""
    if not (isinstance(fa, Opaque) and fa.tag == 'fmtargs' and len(fa.payload) == 2): return None
    tmpl, fargs = dv(fa.payload[0]), dv(fa.payload[1])
    if not isinstance(tmpl, PVec) or not isinstance(fargs, PVec): return None
    bs = [c.v for c in tmpl.items]
    if not all(isinstance(b, int) for b in bs): return None
    out, i, k = [], 0, 0
    while i < len(bs):
        b = bs[i]
        if b == 0: break
        if b < 0x80:
            out.append(bytes(bs[i + 1:i + 1 + b]).decode('utf-8', 'replace')); i += 1 + b
        elif b == 0xC0:
            if k >= len(fargs.items): return None
            a = fargs.items[k].v; k += 1; i += 1
            if not (isinstance(a, Opaque) and a.tag == 'fmtarg' and a.payload[0] == 'display'): return None
            v = dv(a.payload[1])
            if isinstance(v, bool) or not isinstance(v, (str, int)): return None
            out.append(str(v))
        else:
            return None
    return ''.join(out)


def m_fmt_format(ex, args, callee):
    r = render_fmt(ex, args[0])
    return r if r is not None else SymStr(z3.FreshConst(StrSort, 'fmt'))


def default_for_type(ex, t):
    t = t.strip()
    if t == 'bool': return False
    if t.startswith('Option<'): return ex.none()
    if t.startswith('Vec<'): return PVec()
    if re.match(r'^(IndexMap|BTreeMap|Map|HashMap|BTreeSet|Set)<', t): return PMap()
    if t == 'String': return ''
    if t.startswith('VariantOrUnknownOrEmpty<'): return ex.mk_enum('VariantOrUnknownOrEmpty', 'Empty')
    if re.match(r'^[ui](8|16|32|64|size)$', t): return 0
    base = re.sub(r'<.*', '', t).split('::')[-1]
    if base in ex.L.structs: return default_struct(ex, base)
    return Opaque('default', t)


def default_struct(ex, name):
    fields = ex.L.structs[name]
    return Adt(name, 0, {None: [Cell(default_for_type(ex, ex.L.field_types.get((name, f), '?'))) for f in fields]})


def m_default(ex, args, callee):
    m = re.match(r'^<(.*) as Default>::default$', callee)
    base = re.sub(r'<.*', '', m.group(1)).split('::')[-1]
    if base in ex.L.structs and ex.L.structs[base]: return default_struct(ex, base)
    return default_for_type(ex, m.group(1).split('::')[-1])


def m_clone_from(ex, args, callee):
    args[0].cell.v = dv(args[1]); return Tup([])


def m_panic(ex, args, callee):
    raise Panic('panic: ' + (str(args[0])[:80] if args else ''))


def m_vec_push(ex, args, callee):
    dv(args[0]).items.append(Cell(args[1])); return Tup([])


def m_vec_pop(ex, args, callee):
    v = dv(args[0])
    return ex.some(v.items.pop().v) if v.items else ex.none()


def m_slice_index(ex, args, callee):
    v, r = dv(args[0]), args[1]
    if isinstance(r, int): return Ref(v.items[r])
    n = len(v.items)
    if 'RangeFrom' in callee:
        lo = rng(r)[0]
        if lo > n: raise Panic('slice index out of range')
        return Ref(Cell(PVec(v.items[lo:])))
    if 'RangeTo' in callee:
        hi = rng(r)[0]
        if hi > n: raise Panic('slice index out of range')
        return Ref(Cell(PVec(v.items[:hi])))
    if 'RangeFull' in callee: return Ref(Cell(PVec(v.items)))
    lo, hi = rng(r)
    if lo > hi or hi > n: raise Panic('slice index out of range')
    return Ref(Cell(PVec(v.items[lo:hi])))


def m_call_once(ex, args, callee):
    a = args[1]
    clo = args[0]
    if dv(clo) is None:
        # a closure without captures is zero-sized: MIR never assigns it, its type names it
        cm = re.match(r'^<&?\{closure@(.*?)\} as ', callee)
        if cm:
            from .core import Closure
            clo = Closure(ex.closure_by_span(cm.group(1)), [])
    return ex.call_closure(clo, [c.v for c in a.items] if isinstance(a, Tup) else [a])


def m_int_from(ex, args, callee):
    m = re.match(r'^<(\w+) as (?:From|TryFrom)<(\w+)>>::(from|try_from)$', callee)
    dst, src, how = m.group(1), m.group(2), m.group(3)
    v = args[0]
    from .core import INT_BITS
    if z3.is_expr(v) and z3.is_int(v):
        lo, hi = (-(1 << (INT_BITS[dst] - 1)), (1 << (INT_BITS[dst] - 1)) - 1) if dst.startswith('i') else (0, (1 << INT_BITS[dst]) - 1)
        if how == 'from': return v
        return ex.ok(v) if ex.truth(z3.And(v >= lo, v <= hi)) else ex.err(Opaque('TryFromIntError'))
    if how == 'from': return ex.int_cast(v, src, dst)
    db, sb = INT_BITS[dst], INT_BITS[src]
    wide = ex.int_cast(v, src, 'i128')
    lo, hi = (-(1 << (db - 1)), (1 << (db - 1)) - 1) if dst.startswith('i') else (0, (1 << db) - 1)
    if isinstance(wide, int): fits = lo <= wide <= hi
    else: fits = z3.And(wide >= lo, wide <= hi)
    if ex.truth(fits): return ex.ok(ex.int_cast(v, src, dst))
    return ex.err(Opaque('TryFromIntError'))


BASE_MODELS = [
    (r' as PartialEq(<.*>)?>::(eq|ne)$', m_eq),
    (r' as PartialOrd(<.*>)?>::lt$', m_cmp('Lt')), (r' as PartialOrd(<.*>)?>::le$', m_cmp('Le')),
    (r' as PartialOrd(<.*>)?>::gt$', m_cmp('Gt')), (r' as PartialOrd(<.*>)?>::ge$', m_cmp('Ge')),
    (r' as Ord>::cmp$', m_ord_cmp), (r' as Ord>::max$|^std::cmp::max::', m_max), (r' as Ord>::min$|^std::cmp::min::', m_min),
    (r' as Clone>::clone$', ident), (r'String as Deref>::deref$', ident), (r'String::as_str$', ident),
    (r' as ToString>::to_string$', ident), (r'String as From<&str>>::from$', ident), (r'str>::to_string$|str>::to_owned$', ident),
    (r'<str as ToOwned>::to_owned$', ident), (r'String::as_bytes$|str>::as_bytes$', ident),
    (r'<String as Borrow<str>>::borrow$|as AsRef<str>>::as_ref$', ident),
    (r'Vec<.*> as Deref>::deref$|Vec<.*> as DerefMut>::deref_mut$', ident_ref), (r'Vec::<.*>::as_slice$', ident_ref),
    (r'Vec::<.*>::iter$|slice::<impl \[.*\]>::iter$|BTreeMap::<.*>::iter$|BTreeSet::<.*>::iter$', lambda ex, a, c: as_iter(ex, a[0])),
    (r' as IntoIterator>::into_iter$', m_into_iter), (r' as Iterator>::next$', m_iter_next),
    (r' as Iterator>::any::', m_any), (r' as Iterator>::all::', m_all), (r' as Iterator>::find::', m_find),
    (r' as Iterator>::nth$', m_nth),
    (r' as Iterator>::filter::', lambda ex, a, c: It('filter', as_iter(ex, a[0]), a[1])),
    (r' as Iterator>::map::', lambda ex, a, c: It('map', as_iter(ex, a[0]), a[1])),
    (r' as Iterator>::filter_map::', lambda ex, a, c: It('filter_map', as_iter(ex, a[0]), a[1])),
    (r' as Iterator>::flat_map::', lambda ex, a, c: It('flat_map', as_iter(ex, a[0]), a[1])),
    (r' as Iterator>::chain::', lambda ex, a, c: It('chain', as_iter(ex, a[0]), None, as_iter(ex, a[1], True))),
    (r' as Iterator>::skip$', lambda ex, a, c: It('skip', as_iter(ex, a[0]), None, a[1])),
    (r' as Iterator>::take$', lambda ex, a, c: It('take', as_iter(ex, a[0]), None, a[1])),
    (r' as Iterator>::enumerate$', lambda ex, a, c: It('enumerate', as_iter(ex, a[0]))),
    (r' as Iterator>::collect::', m_collect),
    (r'^std::iter::once::', lambda ex, a, c: It('list', [a[0]])), (r'^std::iter::empty::', lambda ex, a, c: It('list', [])),
    (r'Option::<.*>::iter$', lambda ex, a, c: as_iter(ex, a[0]) if dv(a[0]).discr == 0 else It('list', [Ref(dv(a[0]).fields[1][0])])),
    (r'BTreeSet::<.*>::new$|HashSet::<.*>::new$', lambda ex, a, c: PSet()),
    (r'BTreeMap::<.*>::new$|HashMap::<.*>::new$', lambda ex, a, c: PMap()),
    (r'BTreeMap::<.*>::get::|HashMap::<.*>::get::', m_map_get), (r'BTreeMap::<.*>::insert$|HashMap::<.*>::insert$', m_map_insert),
    (r'BTreeMap::<.*>::contains_key::', m_map_contains),
    (r'BTreeMap::<.*>::entry$', m_entry), (r'Entry::<.*>::or_insert_with::', m_or_insert_with),
    (r'Entry::<.*>::or_default$', m_or_default),
    (r'BTreeMap::<.*>::keys$', lambda ex, a, c: It('list', [Ref(Cell(k)) for k, _ in dv(a[0]).items])),
    (r'BTreeMap::<.*>::values$', lambda ex, a, c: It('list', [Ref(cc) for _, cc in dv(a[0]).items])),
    (r'BTreeMap::<.*>::len$|BTreeSet::<.*>::len$', lambda ex, a, c: len(dv(a[0]).items)),
    (r'BTreeMap::<.*>::is_empty$|BTreeSet::<.*>::is_empty$', lambda ex, a, c: len(dv(a[0]).items) == 0),
    (r'BTreeSet::<.*>::contains::|HashSet::<.*>::contains::', m_map_contains), (r'BTreeSet::<.*>::insert$|HashSet::<.*>::insert$', m_set_insert),
    (r'^Box::<\[.*\]>::new_uninit$', lambda ex, a, c: Ref(Cell(None))),
    (r'box_assume_init_into_vec_unsafe', lambda ex, a, c: dv(a[0])),
    (r'^Box::<.*>::new$', lambda ex, a, c: Ref(Cell(a[0]))),
    (r'^Box::<.*>::pin$', lambda ex, a, c: Adt('Pin', 0, {None: [Cell(Ref(Cell(a[0])))]})),
    (r'^Vec::<.*>::new$|^Vec::<.*>::with_capacity$', lambda ex, a, c: PVec()), (r'Vec::<.*>::push$', m_vec_push), (r'Vec::<.*>::pop$', m_vec_pop),
    (r'Vec::<.*>::len$|slice::<impl \[.*\]>::len$', lambda ex, a, c: len(dv(a[0]).items)),
    (r'Vec::<.*>::is_empty$|slice::<impl \[.*\]>::is_empty$', lambda ex, a, c: len(dv(a[0]).items) == 0),
    (r'slice::<impl \[.*\]>::last(_mut)?$', lambda ex, a, c: ex.some(Ref(dv(a[0]).items[-1])) if dv(a[0]).items else ex.none()),
    (r'slice::<impl \[.*\]>::first(_mut)?$', lambda ex, a, c: ex.some(Ref(dv(a[0]).items[0])) if dv(a[0]).items else ex.none()),
    (r'slice::<impl \[.*\]>::join::<', lambda ex, a, c: dv(a[1]).join(need_concrete_str(dv(x.v)) for x in dv(a[0]).items)),
    (r'slice::<impl \[.*\]>::into_vec::|slice::<impl \[.*\]>::to_vec$', ident),
    (r'\[.*\] as Index<.*>>::index$|Vec<.*> as Index<.*>>::index$|as IndexMut<.*>>::index_mut$', m_slice_index),
    (r'Option::<.*>::get_or_insert$', m_get_or_insert), (r'Option::<.*>::get_or_insert_with::', m_get_or_insert_with),
    (r'Option::<.*>::is_none$', lambda ex, a, c: dv(a[0]).discr == 0),
    (r'Option::<.*>::is_some$', lambda ex, a, c: dv(a[0]).discr == 1), (r'Option::<.*>::ok_or_else::', m_ok_or_else),
    (r'Option::<.*>::ok_or::', m_ok_or),
    (r'Option::<.*>::map::', m_opt_map), (r'(Option|Result)::<.*>::map_or::', m_map_or), (r'(Option|Result)::<.*>::map_or_else::', m_map_or_else),
    (r'(Option|Result)::<.*>::transpose$', m_transpose),
    (r'Option::<.*>::filter::', m_opt_filter), (r'Option::<.*>::or$', m_opt_or), (r'Option::<.*>::and_then::', m_opt_and_then), (r'Option::<.*>::or_else::', m_opt_or_else),
    (r'(Option|Result)::<.*>::unwrap_or$', m_unwrap_or), (r'(Option|Result)::<.*>::unwrap_or_default$', m_unwrap_or_default), (r'(Option|Result)::<.*>::unwrap_or_else::', m_unwrap_or_else),
    (r'(Option|Result)::<.*>::(unwrap|expect)$', m_expect),
    (r'Option::<.*>::take$', m_opt_take), (r'Option::<.*>::replace$', m_opt_replace), (r'Option::<.*>::insert$', lambda ex, a, c: (m_opt_replace(ex, a, c), Ref(a[0].cell.v.fields[1][0]))[1]), (r'(Option|Result)::<.*>::as_ref$|Option::<.*>::as_mut$', m_as_ref),
    (r'Option::<.*>::as_deref_mut$|Option::<.*>::as_deref$', m_as_deref),
    (r'Option::<&.*>::cloned$|Option::<&.*>::copied$', lambda ex, a, c: ex.some(dv(ex.payload(a[0]))) if a[0].discr == 1 else a[0]),
    (r'Result::<.*>::map::', m_res_map), (r'Result::<.*>::map_err::', m_map_err), (r'Result::<.*>::and_then::', m_res_and_then),
    (r'Result::<.*>::or_else::', lambda ex, a, c: dv(a[0]) if dv(a[0]).discr == 0 else ex.call_closure(a[1], [ex.payload(dv(a[0]))])),
    (r'Result::<.*>::unwrap_or_default$', lambda ex, a, c: ex.payload(dv(a[0])) if dv(a[0]).discr == 0 else default_for_type(ex, re.search(r'Result::<(.*), [^,]*>::unwrap_or_default$', c).group(1))),
    (r'Result::<.*>::ok$', m_res_ok), (r'Result::<.*>::is_ok$', lambda ex, a, c: dv(a[0]).discr == 0),
    (r'Result::<.*>::is_err$', lambda ex, a, c: dv(a[0]).discr == 1),
    (r'Result::<.*>::err$', lambda ex, a, c: ex.some(ex.payload(dv(a[0]))) if dv(a[0]).discr == 1 else ex.none()),
    (r' as Try>::branch$', m_try_branch), (r' as FromResidual<.*>>::from_residual$', m_from_residual),
    (r'str>::starts_with::<(char|&str)>$', lambda ex, a, c: m_starts_with(ex, a, c)), (r'str>::ends_with::<char>$', lambda ex, a, c: m_ends_with_char(ex, a, c)),
    (r'str>::find::<char>$', m_find_char), (r'str>::to_uppercase$', need_str(lambda s: s.upper())),
    (r'str>::eq_ignore_ascii_case$', lambda ex, a, c: m_eq_ignore_ascii_case_concrete(ex, a, c)),
    (r'str>::to_ascii_lowercase$|String::to_ascii_lowercase$', need_str(lambda s: ''.join(chr(ord(c) + 32) if 'A' <= c <= 'Z' else c for c in s))),
    (r'str>::to_ascii_uppercase$|String::to_ascii_uppercase$', need_str(lambda s: ''.join(chr(ord(c) - 32) if 'a' <= c <= 'z' else c for c in s))),
    (r'^(std::string::)?String::new$', lambda ex, a, c: ''),
    (r'str>::trim_start_matches::<&str>$', need_str(lambda s, p: _trim_start_matches(s, p))),
    (r'u8::is_ascii_control$|<impl u8>::is_ascii_control$', lambda ex, a, c: m_u8_class(ex, a, lambda b: z3.Or(z3.ULT(b, 32), b == 127))),
    (r'u8::is_ascii_whitespace$|<impl u8>::is_ascii_whitespace$', lambda ex, a, c: m_u8_class(ex, a, lambda b: z3.Or(b == 32, b == 9, b == 10, b == 12, b == 13))),
    (r'u8::is_ascii_graphic$|<impl u8>::is_ascii_graphic$', lambda ex, a, c: m_u8_class(ex, a, lambda b: z3.And(z3.UGE(b, 33), z3.ULE(b, 126)))),
    (r'u8::is_ascii$|<impl u8>::is_ascii$', lambda ex, a, c: m_u8_class(ex, a, lambda b: z3.ULT(b, 128))),
    (r'str>::to_lowercase$', need_str(lambda s: s.lower())),
    (r'(str|String) as Index<', m_str_index),
    (r'<impl str>::is_empty$|String::is_empty$', lambda ex, a, c: m_str_len(ex, a, c) == 0),
    (r'<impl str>::len$|String::len$', m_str_len),
    (r'<impl str>::trim$|<impl str>::trim_start$|<impl str>::trim_end$', m_str_trim_opaque),
    (r'Argument::<.*>::new_\w+(::<.*>)?$', m_fmt_argument),
    (r'Arguments::<.*>::(new|from_str|new_const|new_v1)', m_fmt_arguments),
    (r'^core::fmt::rt::', lambda ex, a, c: Opaque('fmt')),
    (r'^std::fmt::format$|^alloc::fmt::format$', m_fmt_format),
    (r'^must_use::', ident),
    (r' as Clone>::clone_from$', m_clone_from),
    (r' as Iterator>::cloned::| as Iterator>::copied::| as Iterator>::cloned$| as Iterator>::copied$', lambda ex, a, c: It('map_py', as_iter(ex, a[0]), None, lambda x: dv(x))),
    (r'^std::any::type_name::|^type_name::', lambda ex, a, c: 'type-name'),
    (r'^<[ui](8|16|32|64|128|size) as (From|TryFrom)<[ui](8|16|32|64|128|size)>>::(from|try_from)$', m_int_from),
    (r'NonZero::<.*>::get$', ident), (r'NonZero::<.*>::new_unchecked$', ident),
    (r'^(core::num::<impl )?(usize|u64|u32)>?::saturating_add$|num::<impl (usize|u64|u32)>::saturating_add$', lambda ex, a, c: m_saturating_add(ex, a, c)),
    (r'NonZero::<.*>::new$', lambda ex, a, c: ex.none() if ex.truth(dv(a[0]) == 0) else ex.some(dv(a[0]))),
    (r'panic_fmt|^panic$|panicking::panic|^core::panicking|^std::rt::begin_panic|unwrap_failed|expect_failed', m_panic),
    (r' as Into<.*>>::into$', None),      # placeholder replaced below (identity only for T: Into<T>)
    (r'^Arc::<.*>::clone$|Arc<.*> as Clone>::clone$', ident_ref), (r'Arc<.*> as Deref>::deref$|Box<.*> as Deref>::deref$|Box<.*> as DerefMut>::deref_mut$', m_smart_deref),
    (r'^Arc::<.*>::new$', lambda ex, a, c: Ref(Cell(a[0]))),
    (r'^std::mem::drop::|^drop::| as Drop>::drop$|^std::ptr::drop_in_place::|^drop_in_place::', unit),
    (r' as ToOwned>::to_owned$', ident),
    (r' as FnOnce<.*>>::call_once$| as FnMut<.*>>::call_mut$| as Fn<.*>>::call$', m_call_once),
    (r'Pin::<.*>::new_unchecked$|Pin::<.*>::new$', lambda ex, a, c: Adt('Pin', 0, {None: [Cell(a[0])]})),
    (r'Pin::<.*>::get_unchecked_mut$|Pin::<.*>::get_mut$|Pin::<.*>::as_mut$|Pin::<.*>::into_inner$', lambda ex, a, c: a[0].fields[None][0].v if isinstance(a[0], Adt) else dv(a[0]).fields[None][0].v),
    (r' as std::future::IntoFuture>::into_future$|as IntoFuture>::into_future$', lambda ex, a, c: a[0]),
    (r'^<.* as Default>::default$', m_default),
]


def m_into(ex, args, callee):
    m = re.match(r'^<(.*) as Into<(.*)>>::into$', callee, re.S)
    if m and m.group(1).strip() == m.group(2).strip(): return args[0]
    if m:
        # Into is From reversed
        return ex.do_call(f'<{m.group(2).strip()} as From<{m.group(1).strip()}>>::from', args)
    raise Unsupported('into ' + callee)


BASE_MODELS = [(p, (m_into if f is None else f)) + tuple(r) for p, f, *r in BASE_MODELS]

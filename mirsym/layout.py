"""Type layout tables read from Rust source on every run.

MIR addresses struct fields and enum variants by index.  The index tables are taken from
the `struct` / `enum` declarations in the source files themselves (dropshot's, and for a few
third-party types the crate sources in the cargo registry), so that a reordered field or
variant is followed rather than silently mis-assigned.
"""
import glob
import os
import re


def strip_comments(src):
    out, i, n = [], 0, len(src)
    while i < n:
        c = src[i]
        if c == '/' and i + 1 < n and src[i + 1] == '/':
            j = src.find('\n', i)
            i = n if j < 0 else j
        elif c == '/' and i + 1 < n and src[i + 1] == '*':
            depth, i = 1, i + 2
            while i < n and depth:
                if src.startswith('/*', i): depth += 1; i += 2
                elif src.startswith('*/', i): depth -= 1; i += 2
                else: i += 1
        elif c == '"':
            j = i + 1
            while j < n and src[j] != '"':
                j += 2 if src[j] == '\\' else 1
            out.append(src[i:j + 1]); i = j + 1
        else:
            out.append(c); i += 1
    return ''.join(out)


def _balanced(src, i, open_c, close_c):
    """src[i] == open_c; return index just past the matching close"""
    depth = 0
    n = len(src)
    while i < n:
        c = src[i]
        if c == '"':
            i += 1
            while i < n and src[i] != '"':
                i += 2 if src[i] == '\\' else 1
        elif c == open_c: depth += 1
        elif c == close_c:
            depth -= 1
            if depth == 0: return i + 1
        i += 1
    return n


def _split_items(body):
    items, depth, cur = [], 0, []
    i, n = 0, len(body)
    while i < n:
        c = body[i]
        if c == '"':
            j = i + 1
            while j < n and body[j] != '"':
                j += 2 if body[j] == '\\' else 1
            cur.append(body[i:j + 1]); i = j + 1; continue
        if c in '([{<': depth += 1
        elif c in ')]}': depth -= 1
        elif c == '>' and i > 0 and body[i - 1] not in '-=': depth -= 1
        if c == ',' and depth == 0:
            items.append(''.join(cur)); cur = []
        else:
            cur.append(c)
        i += 1
    if ''.join(cur).strip(): items.append(''.join(cur))
    return items


def _strip_attrs(item):
    item = item.strip()
    while item.startswith('#'):
        j = item.index('[')
        item = item[_balanced(item, j, '[', ']'):].strip()
    return item


class Layouts:
    def __init__(self):
        self.enums = {}      # name -> [variant names]
        self.structs = {}    # name -> [field names]  (tuple structs: '0','1',..)
        self.variant_fields = {}   # (enum, variant) -> [field names] for struct-like variants
        self.sources = {}    # name -> file it came from
        self.field_types = {}   # (struct name, field) -> type text (first definition)
        self.struct_defs = {}   # name -> [field lists] when several modules define a struct of that name
        self.aliases = {}    # type alias name -> target type text
        self.consts = {}     # (module file stem, NAME) -> literal value (str / int) for simple `const NAME: T = literal;`

    def add_source(self, path, only=None):
        src = strip_comments(open(path).read())
        if only is None:
            for m in re.finditer(r'\btype\s+(\w+)(?:<[^=]*>)?\s*=\s*([^;]+);', src):
                self.aliases.setdefault(m.group(1), ' '.join(m.group(2).split()))
            stem = os.path.splitext(os.path.basename(path))[0]
            for m in re.finditer(r'\bconst\s+(\w+)\s*:\s*&(?:\'static\s+)?str\s*=\s*"((?:[^"\\]|\\.)*)"\s*;', src):
                self.consts.setdefault((stem, m.group(1)), m.group(2).encode().decode('unicode_escape'))
            for m in re.finditer(r'\bconst\s+(\w+)\s*:\s*&(?:\'static\s+)?\[u8\]\s*=\s*b"((?:[^"\\]|\\.)*)"\s*;', src):
                self.consts.setdefault((stem, m.group(1)), ('bytes', m.group(2).encode().decode('unicode_escape').encode('latin1')))
            for m in re.finditer(r'\bconst\s+(\w+)\s*:\s*(?:usize|u64|u32|u16|u8|i64|i32)\s*=\s*([\d_]+)\s*;', src):
                self.consts.setdefault((stem, m.group(1)), int(m.group(2).replace('_', '')))
        for m in re.finditer(r'\b(enum|struct)\s+(\w+)', src):
            kind, name = m.group(1), m.group(2)
            if only is not None and name not in only: continue
            i = m.end()
            # skip generics
            while i < len(src) and src[i].isspace(): i += 1
            if i < len(src) and src[i] == '<':
                i = _balanced(src, i, '<', '>')
            # find body start: '{' or '(' or ';'
            j = i
            while j < len(src) and src[j] not in '{(;': j += 1
            if j >= len(src) or src[j] == ';':
                if kind == 'struct' and name not in self.structs:
                    self.structs[name] = []; self.sources[name] = path
                continue
            if src[j] == '(':
                end = _balanced(src, j, '(', ')')
                fields = [str(k) for k, _ in enumerate(_split_items(src[j + 1:end - 1]))]
                if kind == 'struct' and name not in self.structs:
                    self.structs[name] = fields; self.sources[name] = path
                continue
            end = _balanced(src, j, '{', '}')
            body = src[j + 1:end - 1]
            names = []
            for it in _split_items(body):
                it = _strip_attrs(it)
                if not it: continue
                it = re.sub(r'^pub(\([^)]*\))?\s+', '', it)
                nm = re.match(r'(r#)?(\w+)', it)
                if not nm: continue
                names.append(nm.group(2))
                if kind == 'struct':
                    tm = re.match(r'(?:r#)?\w+\s*:\s*(.*)$', it, re.S)
                    if tm: self.field_types.setdefault((name, nm.group(2)), ' '.join(tm.group(1).split()))
                if kind == 'enum':
                    rest = it[nm.end():].strip()
                    if rest.startswith('{'):
                        vf = []
                        for f in _split_items(rest[1:_balanced(rest, 0, '{', '}') - 1]):
                            f = _strip_attrs(f)
                            fm = re.match(r'(?:pub(?:\([^)]*\))?\s+)?(\w+)\s*:', f)
                            if fm: vf.append(fm.group(1))
                        self.variant_fields[(name, nm.group(2))] = vf
            if kind == 'enum':
                if name not in self.enums:
                    self.enums[name] = names; self.sources[name] = path
            else:
                self.struct_defs.setdefault(name, []).append(names)
                if name not in self.structs:
                    self.structs[name] = names; self.sources[name] = path

    def add_tree(self, root):
        for p in sorted(glob.glob(os.path.join(root, '**', '*.rs'), recursive=True)):
            self.add_source(p)


STD_ENUMS = {
    'Option': ['None', 'Some'],
    'Result': ['Ok', 'Err'],
    'ControlFlow': ['Continue', 'Break'],
    'Poll': ['Ready', 'Pending'],
    'Ordering': ['Less', 'Equal', 'Greater'],
    'Cow': ['Borrowed', 'Owned'],
    'Entry': ['Vacant', 'Occupied'],
}


def load(repo):
    L = Layouts()
    L.add_tree(os.path.join(repo, 'dropshot', 'src'))
    for k, v in STD_ENUMS.items():
        L.enums[k] = v
    return L

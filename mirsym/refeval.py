"""Evaluating a reference implementation under a path condition: each branch of the reference is
decided by the solver from the path condition; a branch the path condition leaves open splits the
obligation in two (so the reference stays independent of the code's own case analysis)."""
import z3


class NeedSplit(Exception):
    def __init__(self, cond): self.cond = cond


class Decider:
    def __init__(self, pc, inconclusive=RuntimeError):
        self.s = z3.Solver(); self.s.add(list(pc))
        self.calls = 0
        self.inconclusive = inconclusive
    def feasible(self):
        return self.s.check() == z3.sat
    def __call__(self, cond):
        if isinstance(cond, bool): return cond
        cond = z3.simplify(cond)
        if z3.is_true(cond): return True
        if z3.is_false(cond): return False
        self.calls += 1
        self.s.push(); self.s.add(z3.Not(cond)); r1 = self.s.check(); self.s.pop()
        if r1 == z3.unsat: return True
        self.s.push(); self.s.add(cond); r2 = self.s.check(); self.s.pop()
        if r2 == z3.unsat: return False
        if z3.unknown in (r1, r2): raise self.inconclusive('solver unknown while deciding a reference branch')
        raise NeedSplit(cond)


def under(pc, reference, then, inconclusive=RuntimeError, depth=0, max_depth=16):
    """run reference(decide) under pc, splitting as needed; call then(pc', spec) for each case"""
    d = Decider(pc, inconclusive)
    if depth and not d.feasible(): return
    try:
        spec = reference(d)
    except NeedSplit as ns:
        if depth >= max_depth: raise inconclusive('reference split depth exceeded')
        under(list(pc) + [ns.cond], reference, then, inconclusive, depth + 1, max_depth)
        under(list(pc) + [z3.Not(ns.cond)], reference, then, inconclusive, depth + 1, max_depth)
        return
    then(list(pc), spec)

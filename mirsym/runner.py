"""Check runner: MIR dump, obligation discharge, second-solver cross-check, native replay,
known findings, evidence files.  Exit codes: 0 held / 1 VIOLATION (replayed natively, not a
known finding) / 2 INCONCLUSIVE (never success)."""
import hashlib
import json
import os
import shutil
import subprocess
import sys
import tempfile
import time

import z3

from . import layout, mir, resolve
from .core import Executor, Unsupported, lit_axioms

VERIF = os.path.dirname(os.path.dirname(os.path.abspath(__file__)))
REPO = os.environ.get('VERIF_REPO', '/repo')
BUILD = os.path.join(VERIF, '.build')
NIGHTLY_ENV = dict(os.environ, CARGO_NET_OFFLINE='true')


class Inconclusive(Exception):
    pass


def sh(cmd, **kw):
    return subprocess.run(cmd, shell=isinstance(cmd, str), capture_output=True, text=True, **kw)


def dump_mir(crate='dropshot'):
    """regenerate the MIR of the crate from /repo's current working tree (every run)"""
    os.makedirs(BUILD, exist_ok=True)
    tdir = os.path.join(BUILD, 'mir-target')
    out = os.path.join(BUILD, f'{crate}.{os.getpid()}.mir')
    lock = os.path.join(BUILD, 'mir.lock')
    import fcntl
    with open(lock, 'w') as lf:
        fcntl.flock(lf, fcntl.LOCK_EX)
        # force rustc to re-run on the crate without touching /repo: drop its fingerprint
        fp = os.path.join(tdir, 'debug', '.fingerprint')
        if os.path.isdir(fp):
            for d in os.listdir(fp):
                if d.startswith(crate + '-'):
                    shutil.rmtree(os.path.join(fp, d), ignore_errors=True)
        t0 = time.time()
        r = sh(['cargo', '+nightly', 'rustc', '--offline', '--lib', '--target-dir', tdir, '--', '-Zunpretty=mir',
                '-C', 'debug-assertions=off', '-C', 'overflow-checks=on'],
               cwd=os.path.join(REPO, crate), env=NIGHTLY_ENV)
        if r.returncode != 0 or len(r.stdout) < 100000:
            raise Inconclusive('MIR dump failed: ' + r.stderr[-2000:])
        with open(out, 'w') as f:
            f.write(r.stdout)
    return out, time.time() - t0


class Check:
    def __init__(self, pid, tier, level='model_checking'):
        self.pid, self.tier, self.level = pid, tier, level
        self.seed = int(os.environ.get('VERIF_SEED', '0') or 0)
        self.t0 = time.time()
        self.obligations = []      # dicts: name, result, time
        self.witnesses = []
        self.samples = []
        self.violations = []       # replayed, not known
        self.mismatches = []
        self.known_hits = []
        self.notes = []
        self.bounds = {}
        self.assumptions = []
        self.solver_time = 0.0
        self.replayed = 0
        self.paths = 0
        self.extra = {}
        self.smt_dir = os.path.join(BUILD, 'smt', pid)
        self.cross = {'cvc5': 0, 'z3-4.8': 0, 'disagreements': 0}
        self.ex = None
        self.mir_time = 0.0
        self.known = load_known(pid)
        cexdir = os.path.join(VERIF, 'evidence', 'cex')
        if os.path.isdir(cexdir):
            for fn_ in os.listdir(cexdir):
                if fn_.startswith(pid + '-'):
                    try: os.unlink(os.path.join(cexdir, fn_))
                    except OSError: pass

    # ---- setup
    def load(self, models, loop_bound=64):
        path, dt = dump_mir()
        self.mir_time = dt
        text = open(path).read()
        os.unlink(path)
        self.mir_sha = hashlib.sha256(text.encode()).hexdigest()[:16]
        self.fns = mir.parse_mir(text)
        self.L = layout.load(REPO)
        self.R = resolve.Resolver(self.fns, REPO)
        self.ex = Executor(self.fns, self.L, models, self.R, loop_bound=loop_bound)
        return self.ex

    # ---- parallel workers
    def fork(self):
        """a fresh collector for a forked worker (same configuration, empty results)"""
        import copy
        c = copy.copy(self)
        c.obligations, c.witnesses, c.samples, c.violations, c.known_hits, c.notes = [], [], [], [], [], []
        c.mismatches = []
        c.solver_time, c.replayed, c.paths = 0.0, 0, 0
        c.cross = {'cvc5': 0, 'z3-4.8': 0, 'disagreements': 0}
        c._ex0 = dict(self.ex.stats); c._fn0 = set(self.ex.fns_executed); c._m0 = set(self.ex.models_used)
        c._u0 = len(self.ex.unsupported_paths)
        return c

    def summary(self):
        ex = self.ex
        return {'obligations': self.obligations, 'witnesses': self.witnesses, 'samples': self.samples, 'violations': self.violations,
                'known_hits': self.known_hits, 'solver_time': self.solver_time, 'replayed': self.replayed, 'paths': self.paths,
                'cross': self.cross, 'fns': sorted(ex.fns_executed), 'models': sorted(ex.models_used),
                'unsupported': ex.unsupported_paths[getattr(self, '_u0', 0):], 'mismatches': self.mismatches,
                'stats': {k: ex.stats[k] - self._ex0.get(k, 0) for k in ex.stats}}

    def absorb(self, s):
        self.obligations += s['obligations']; self.witnesses += s['witnesses']
        if len(self.samples) < 12: self.samples += s['samples'][:2]
        self.violations += s['violations']; self.known_hits += s['known_hits']
        self.solver_time += s['solver_time']; self.replayed += s['replayed']; self.paths += s['paths']
        for k in s['cross']: self.cross[k] = self.cross.get(k, 0) + s['cross'][k]
        self.ex.fns_executed |= set(s['fns']); self.ex.models_used |= set(s['models'])
        self.ex.unsupported_paths += s.get('unsupported', [])
        self.mismatches += s.get('mismatches', [])
        for k, v in s['stats'].items(): self.ex.stats[k] += v

    # ---- obligations
    def _solve(self, s, name, timeout_ms):
        s.set('timeout', timeout_ms)
        t0 = time.time()
        r = s.check()
        dt = time.time() - t0
        self.solver_time += dt
        return r, dt

    def prove(self, name, pc, neg_goal, timeout_ms=120000, extra=(), prefer=(), allow_unknown=False):
        """discharge: pc ∧ ¬goal must be unsat.  Returns None if proved, else the z3 model."""
        name = getattr(self, 'name_prefix', '') + name
        s = z3.Solver()
        s.add(lit_axioms()); s.add(list(pc)); s.add(list(extra)); s.add(neg_goal)
        r, dt = self._solve(s, name, timeout_ms)
        rec = {'name': name, 'expect': 'unsat', 'result': str(r), 'time_s': round(dt, 4)}
        self.obligations.append(rec)
        if r == z3.unknown:
            if allow_unknown:
                self.obligations.pop()
                self.notes.append(f'supplementary obligation {name}: solver unknown ({s.reason_unknown()}); not counted')
                return None
            raise Inconclusive(f'solver unknown on obligation {name}: {s.reason_unknown()}')
        if self.tier == 'thorough' or os.environ.get('VERIF_CROSS'):
            self._cross_check(s, name, str(r))
        if r == z3.sat:
            m = s.model()
            if prefer:
                # a counterexample exists; prefer one that is easy to replay (does not change the verdict)
                s.push(); s.add(list(prefer))
                if s.check() == z3.sat: m = s.model()
                s.pop()
            return m
        return None

    def witness(self, name, pc, goal, timeout_ms=120000):
        """vacuity guard: pc ∧ goal must be sat; returns the model"""
        s = z3.Solver()
        s.add(lit_axioms()); s.add(list(pc)); s.add(goal)
        r, dt = self._solve(s, name, timeout_ms)
        self.witnesses.append({'name': name, 'expect': 'sat', 'result': str(r), 'time_s': round(dt, 4)})
        if r != z3.sat:
            raise Inconclusive(f'vacuity guard failed: witness {name} is {r}')
        return s.model()

    def _cross_check(self, s, name, expect):
        """re-decide with a second solver from the SMT-LIB2 dump; any disagreement or (error => inconclusive"""
        os.makedirs(self.smt_dir, exist_ok=True)
        smt = '(set-logic ALL)\n' + s.to_smt2()
        # z3 5.x prints a few operators under its own names: put them back into SMT-LIB spelling for the second solver
        # (the `_i` division variants differ from the standard ones only for a zero divisor, which z3 has already case-split away)
        for a, b in (('int_to_bv', 'int2bv'), ('bvudiv_i', 'bvudiv'), ('bvurem_i', 'bvurem'), ('bvsdiv_i', 'bvsdiv'), ('bvsrem_i', 'bvsrem'), ('bvsmod_i', 'bvsmod')):
            smt = smt.replace(a, b)
        if 'forall' not in smt and 'exists' not in smt: smt = smt.replace('(bv2int ', '(bv2nat ').replace('ubv_to_int', 'bv2nat')
        fn = os.path.join(self.smt_dir, f'{os.getpid()}-{len(self.obligations):05d}.smt2')
        with open(fn, 'w') as f: f.write(smt)
        has_q = 'forall' in smt or 'exists' in smt
        tool = ['/usr/bin/z3', '-T:120', fn] if has_q else ['cvc5', '--lang', 'smt2', '--tlimit=15000', fn]
        r = sh(tool)
        out = (r.stdout + r.stderr).strip()
        key = 'z3-4.8' if has_q else 'cvc5'
        self.cross[key] += 1
        first = out.split('\n')[0].strip() if out else ''
        if '(error' not in out and first not in ('sat', 'unsat') and not has_q:
            # the second solver ran out of time (non-linear arithmetic mostly): ask the third one before giving up
            r2 = sh(['/usr/bin/z3', '-T:120', fn])
            out2 = (r2.stdout + r2.stderr).strip()
            first2 = out2.split('\n')[0].strip() if out2 else ''
            if '(error' not in out2 and first2 in ('sat', 'unsat'):
                out, first, key = out2, first2, 'z3-4.8'
                self.cross[key] += 1
            elif '(error' not in out2:
                # neither independent solver answers within its limit: recorded, not an alarm (the deciding verdict is z3's)
                self.cross['unanswered'] = self.cross.get('unanswered', 0) + 1
                os.unlink(fn)
                return
        if '(error' in out or first not in ('sat', 'unsat'):
            raise Inconclusive(f'second solver ({key}) inconclusive on {name}: {out[:200]}')
        if first != expect:
            self.cross['disagreements'] += 1
            raise Inconclusive(f'solver disagreement on {name}: z3={expect} {key}={first} ({fn})')
        os.unlink(fn)

    # ---- findings
    def counterexample(self, desc, replay_case, reproduced, role=None):
        """called by a property harness after native replay of a solver model"""
        self.replayed += 1
        os.makedirs(os.path.join(VERIF, 'evidence', 'cex'), exist_ok=True)
        h = hashlib.sha256(json.dumps(replay_case, sort_keys=True).encode()).hexdigest()[:10]
        path = os.path.join(VERIF, 'evidence', 'cex', f'{self.pid}-{h}.json')
        with open(path, 'w') as f:
            json.dump({'property': self.pid, 'what': desc, 'role': role, 'case': replay_case}, f, indent=1)
        if not reproduced:
            # the encoding or a library model is wrong (or the model cannot be replayed): never an alarm
            self.mismatches.append(f'encoding-mismatch: solver model does not reproduce natively: {desc} ({path})')
            return
        for k in self.known:
            if k.get('status') == 'open' and role is not None and k.get('role') == role:
                print(f'KNOWN-FINDING: property={self.pid} {k.get("what", desc)}')
                self.known_hits.append(role)
                return
        self.violations.append({'what': desc, 'replay': path, 'role': role})
        print(f'VIOLATION property={self.pid} replay={path}')
        print(f'  {desc}')

    # ---- evidence
    def finish(self, rule, extra_cov=None):
        ex = self.ex
        n_ob = len(self.obligations)
        cov = {
            'states': max(1, self.paths or (ex.stats['paths'] if ex else 0)),
            'transitions': max(1, n_ob),
            'traces_validated_against_impl': self.replayed,
            'samples': self.samples[:12] or ['(none)'],
            'evaluations': n_ob + len(self.witnesses),
            'distinct_nontrivial': len({o['name'] for o in self.obligations}),
            'rule': rule,
            'obligations': n_ob,
            'discharged': sum(1 for o in self.obligations if o['result'] == 'unsat'),
            'queries': {'obligations_unsat': sum(1 for o in self.obligations if o['result'] == 'unsat'),
                        'obligations_sat': sum(1 for o in self.obligations if o['result'] == 'sat'),
                        'witnesses_sat': len(self.witnesses),
                        'feasibility_checks': ex.stats['checks'] if ex else 0},
            'solver_time_s': round(self.solver_time + (ex.stats['solver_s'] if ex else 0), 3),
            'mir_dump_s': round(self.mir_time, 1),
            'mir_sha256_16': getattr(self, 'mir_sha', None),
            'functions_encoded': sorted(f'{n} #{self.fns[n].sha()}' for n in (ex.fns_executed if ex else [])),
            'models_trusted': sorted(ex.models_used) if ex else [],
            'mir_statements_executed': ex.stats['stmts'] if ex else 0,
            'bounds': self.bounds,
            'second_solver': self.cross,
            'known_findings_hit': self.known_hits,
            'notes': self.notes,
            'exhaustive': False,
        }
        if extra_cov: cov.update(extra_cov)
        cov.update(self.extra)
        ev = {'property_id': self.pid, 'tier': self.tier, 'seed': self.seed, 'level': self.level, 'coverage': cov,
              'assumptions': self.assumptions, 'wall_s': round(time.time() - self.t0, 2), 'violations': len(self.violations)}
        os.makedirs(os.path.join(VERIF, 'evidence'), exist_ok=True)
        with open(os.path.join(VERIF, 'evidence', f'{self.pid}.json'), 'w') as f:
            json.dump(ev, f, indent=1, default=str)
        unsup = ex.unsupported_paths if ex else []
        if unsup: cov['unsupported_paths'] = {'count': len(unsup), 'first': unsup[0]}
        print(f'[{self.pid}] tier={self.tier} paths={cov["states"]} obligations={n_ob} discharged={cov["discharged"]} '
              f'witnesses={len(self.witnesses)} replayed={self.replayed} solver={cov["solver_time_s"]}s wall={ev["wall_s"]}s '
              f'violations={len(self.violations)} known={len(self.known_hits)}')
        if self.violations: return 1
        if self.mismatches:
            raise Inconclusive(f'{len(self.mismatches)} solver model(s) did not reproduce natively; first: {self.mismatches[0]}')
        if unsup:
            raise Inconclusive(f'{len(unsup)} execution path(s) hit an unsupported construct; first: {unsup[0]}')
        return 0


def load_known(pid):
    p = os.path.join(VERIF, 'known_findings.json')
    if not os.path.exists(p): return []
    return [k for k in json.load(open(p)).get('findings', []) if k.get('property') == pid]


# ---------------------------------------------------------------------- native replay (E3)
_replay_built = {}


_PAR = {}


def _par_worker(i):
    import time as _t, traceback
    from mirsym.core import Unsupported
    chk, fn, tasks = _PAR['chk'], _PAR['fn'], _PAR['tasks']
    sub = chk.fork()
    t0 = _t.time()
    extra = {}
    try:
        extra = fn(sub, tasks[i]) or {}
    except Inconclusive as e:
        return dict(sub.summary(), inconclusive=f'{tasks[i]}: {e}', task_s=_t.time() - t0, extra={})
    except Unsupported as e:
        return dict(sub.summary(), inconclusive=f'{tasks[i]}: unsupported: {e}', task_s=_t.time() - t0, extra={})
    except Exception as e:
        return {'inconclusive': f'{tasks[i]}: internal error {e!r} {traceback.format_exc()[-1500:]}'}
    return dict(sub.summary(), task_s=_t.time() - t0, extra=extra)


def parallel(chk, tasks, fn, jobs=None):
    """run fn(sub_check, task) for every task in forked workers (the executor and its MIR are shared copy-on-write); results are
    absorbed into chk.  -> (list of per-task `extra` dicts, list of inconclusive reasons)"""
    import multiprocessing as mp
    _PAR.update(chk=chk, fn=fn, tasks=list(tasks))
    extras, incon = [], []
    if not _PAR['tasks']: return extras, incon
    with mp.get_context('fork').Pool(jobs or int(os.environ.get('VERIF_JOBS', '16'))) as pool:
        for res in pool.imap_unordered(_par_worker, range(len(_PAR['tasks'])), chunksize=1):
            if 'inconclusive' in res: incon.append(res['inconclusive'])
            if 'samples' in res:
                chk.absorb(res); extras.append(res.get('extra') or {})
    return extras, incon


def replay_bin(profile='dev'):
    """build /verif/replay against /repo's current tree with the repo's own toolchain"""
    if profile in _replay_built: return _replay_built[profile]
    cdir = os.path.join(VERIF, 'replay')
    shutil.copyfile(os.path.join(REPO, 'Cargo.lock'), os.path.join(cdir, 'Cargo.lock'))
    tdir = os.path.join(BUILD, 'replay-target')
    env = dict(os.environ, CARGO_NET_OFFLINE='true', RUSTUP_TOOLCHAIN=repo_toolchain())
    cmd = ['cargo', 'build', '--offline', '--target-dir', tdir] + (['--release'] if profile == 'release' else [])
    import fcntl
    with open(os.path.join(BUILD, 'replay.lock'), 'w') as lf:
        fcntl.flock(lf, fcntl.LOCK_EX)
        r = sh(cmd, cwd=cdir, env=env)
    if r.returncode != 0:
        raise Inconclusive('replay build failed: ' + r.stderr[-3000:])
    b = os.path.join(tdir, 'release' if profile == 'release' else 'debug', 'replay')
    _replay_built[profile] = b
    return b


def repo_toolchain():
    try:
        import re
        t = open(os.path.join(REPO, 'rust-toolchain.toml')).read()
        return re.search(r'channel\s*=\s*"([^"]+)"', t).group(1)
    except Exception:
        return 'stable'


def replay(cases, profile='dev'):
    """run the native replay binary on a list of JSON cases; returns list of JSON results"""
    b = replay_bin(profile)
    r = subprocess.run([b], input='\n'.join(json.dumps(c) for c in cases) + '\n', capture_output=True, text=True, timeout=600)
    if r.returncode != 0:
        raise Inconclusive(f'replay binary failed: {r.stderr[-2000:]}')
    out = [json.loads(l) for l in r.stdout.split('\n') if l.strip().startswith('{')]
    if len(out) != len(cases):
        raise Inconclusive(f'replay returned {len(out)} results for {len(cases)} cases: {r.stderr[-1000:]}')
    return out


def main_wrapper(pid, fn):
    """run a property check function fn(tier) -> exit code with the inconclusive protocol"""
    import argparse
    ap = argparse.ArgumentParser()
    ap.add_argument('--tier', default=os.environ.get('VERIF_TIER', 'quick'))
    ap.add_argument('--replay', default=None)
    a = ap.parse_args(sys.argv[2:] if len(sys.argv) > 1 and not sys.argv[1].startswith('-') else sys.argv[1:])
    if a.replay:
        # re-run a stored counterexample / witness on the real compiled code and show what it does
        try:
            d = json.load(open(a.replay))
            case = d.get('case', d)
            print(json.dumps({'property': d.get('property', pid), 'what': d.get('what'), 'case': case, 'native_result': replay([case])[0]}, indent=1))
            sys.exit(0)
        except Inconclusive as e:
            print(f'INCONCLUSIVE property={pid} {e}'); sys.exit(2)
    try:
        rc = fn(a.tier, a.replay)
    except Inconclusive as e:
        print(f'INCONCLUSIVE property={pid} {e}')
        rc = 2
    except Unsupported as e:
        print(f'INCONCLUSIVE property={pid} unsupported: {e}')
        rc = 2
    sys.exit(rc)

#!/bin/bash
# One-time, offline: warm the build directories used by the checks (the checks rebuild from
# /repo's current tree on every run; this only avoids paying for dependencies each time).
set -e
cd "$(dirname "$0")"
export CARGO_NET_OFFLINE=true
mkdir -p .build evidence
python3-vt - <<'PY'
import sys
sys.path.insert(0, '.')
from mirsym import runner
p, dt = runner.dump_mir()
import os; os.unlink(p)
print('mir dump ok %.1fs' % dt)
print('replay:', runner.replay_bin())
PY
# warm the Kani build (C13); the verdicts are recomputed by the check itself
( cd kani && cp /repo/Cargo.lock . && cargo kani --target-dir ../.build/kani-target --default-unwind 4 --output-format terse >/dev/null 2>&1 || true )
echo "kani warm-up done"
